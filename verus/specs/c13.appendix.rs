// Callers see only the two contracts: for EVERY success type T and EVERY IntError implementor E,
// encoding a Result and decoding the code preserves Ok/Err-ness.
fn exec_code_roundtrip<T, E: IntError>(res: Result<T, E>) -> (r: Result<(), E>)
    ensures (r is Ok) == (res is Ok)
{
    let code = into_int_result(res);
    from_int_result_empty::<E>(code)
}
// vacuity canary: must FAIL
fn canary_c13_must_fail<T, E: IntError>(res: Result<T, E>) -> (r: i32)
    ensures r == 0
{
    into_int_result(res)
}

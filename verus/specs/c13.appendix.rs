// Callers see only the two contracts: for EVERY success type T and EVERY IntError implementor E,
// encoding a Result and decoding the code preserves Ok/Err-ness.
fn exec_code_roundtrip<T, E: IntError>(res: Result<T, E>) -> (r: Result<(), E>)
    ensures (r is Ok) == (res is Ok)
{
    let code = into_int_result(res);
    from_int_result_empty::<E>(code)
}
// the error value itself: encoded by the error type's OWN conversion, decoded by its OWN inverse,
// applied to exactly the code that was returned (nothing added, negated or truncated in between)
fn exec_error_roundtrip<T, E: IntError>(e: E) -> (r: Result<(), E>)
    ensures r is Err, r->Err_0 == E::from_code_spec(e.code_spec())
{
    let code = into_int_result::<T, E>(Err(e));
    from_int_result_empty::<E>(code)
}
// the unit error type of the library: every failure is code 1
fn exec_unit_error_code<T>(res: Result<T, ()>) -> (r: i32)
    ensures r == (if res is Ok { 0i32 } else { 1i32 })
{
    into_int_result(res)
}
// vacuity canary: must FAIL
fn canary_c13_must_fail<T, E: IntError>(res: Result<T, E>) -> (r: i32)
    ensures r == 0
{
    into_int_result(res)
}

// Specification taken from the property statement: combining verdicts is Invalid-absorbing and
// Unknown-dominates-Valid.
pub open spec fn and_spec(a: VerifyLayout, b: VerifyLayout) -> VerifyLayout {
    if a == VerifyLayout::Invalid || b == VerifyLayout::Invalid {
        VerifyLayout::Invalid
    } else if a == VerifyLayout::Unknown || b == VerifyLayout::Unknown {
        VerifyLayout::Unknown
    } else {
        VerifyLayout::Valid
    }
}
proof fn lemma_and_algebra(a: VerifyLayout, b: VerifyLayout, c: VerifyLayout)
    ensures
        and_spec(a, b) == and_spec(b, a),
        and_spec(and_spec(a, b), c) == and_spec(a, and_spec(b, c)),
        and_spec(VerifyLayout::Valid, a) == a,
        and_spec(VerifyLayout::Invalid, a) == VerifyLayout::Invalid,
        and_spec(a, b) == VerifyLayout::Valid <==> (a == VerifyLayout::Valid && b == VerifyLayout::Valid),
{}
// a caller folding three verdicts sees only the contract of `and`
fn exec_fold3(a: VerifyLayout, b: VerifyLayout, c: VerifyLayout) -> (r: bool)
    ensures r == (a == VerifyLayout::Valid && b == VerifyLayout::Valid && c == VerifyLayout::Valid)
{
    let v = a.and(b).and(c);
    v.is_valid_strict()
}
// vacuity canary: must FAIL
fn canary_c20_must_fail(a: VerifyLayout, b: VerifyLayout) -> (r: VerifyLayout)
    ensures r == VerifyLayout::Valid
{
    a.and(b)
}

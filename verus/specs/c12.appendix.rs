// Specification of the conversions, taken from the property statement: variant and payload unchanged.
pub open spec fn opt_to_c<T>(o: Option<T>) -> COption<T> {
    match o { Option::None => COption::None, Option::Some(t) => COption::Some(t) }
}
pub open spec fn c_to_opt<T>(o: COption<T>) -> Option<T> {
    match o { COption::None => Option::None, COption::Some(t) => Option::Some(t) }
}
pub open spec fn res_to_c<T, E>(r: Result<T, E>) -> CResult<T, E> {
    match r { Result::Ok(t) => CResult::Ok(t), Result::Err(e) => CResult::Err(e) }
}
pub open spec fn c_to_res<T, E>(r: CResult<T, E>) -> Result<T, E> {
    match r { CResult::Ok(t) => Result::Ok(t), CResult::Err(e) => Result::Err(e) }
}
// Contracts of the From impls (vstd's From::from ensures obeys_from_spec() ==> ret == from_spec(v));
// the function text above is untouched.
impl<T> FromSpecImpl<Option<T>> for COption<T> {
    open spec fn obeys_from_spec() -> bool { true }
    open spec fn from_spec(v: Option<T>) -> Self { opt_to_c(v) }
}
impl<T> FromSpecImpl<COption<T>> for Option<T> {
    open spec fn obeys_from_spec() -> bool { true }
    open spec fn from_spec(v: COption<T>) -> Self { c_to_opt(v) }
}
impl<T, E> FromSpecImpl<Result<T, E>> for CResult<T, E> {
    open spec fn obeys_from_spec() -> bool { true }
    open spec fn from_spec(v: Result<T, E>) -> Self { res_to_c(v) }
}
impl<T, E> FromSpecImpl<CResult<T, E>> for Result<T, E> {
    open spec fn obeys_from_spec() -> bool { true }
    open spec fn from_spec(v: CResult<T, E>) -> Self { c_to_res(v) }
}
// The property: the two conversions are inverse, for every T, E (lossless).
proof fn lemma_option_roundtrip<T>(o: Option<T>, c: COption<T>)
    ensures c_to_opt(opt_to_c(o)) == o, opt_to_c(c_to_opt(c)) == c,
            (opt_to_c(o) is Some) == (o is Some), (c_to_opt(c) is Some) == (c is Some),
{}
proof fn lemma_result_roundtrip<T, E>(r: Result<T, E>, c: CResult<T, E>)
    ensures c_to_res(res_to_c(r)) == r, res_to_c(c_to_res(c)) == c,
            (res_to_c(r) is Ok) == (r is Ok), (c_to_res(c) is Ok) == (c is Ok),
{}
// Callers see only the contracts: exec round trips through the real conversions.
fn exec_option_roundtrip<T>(o: Option<T>) -> (r: Option<T>)
    ensures r == o
{
    let c: COption<T> = COption::from(o);
    Option::from(c)
}
fn exec_result_roundtrip<T, E>(x: Result<T, E>) -> (r: Result<T, E>)
    ensures r == x
{
    let c: CResult<T, E> = CResult::from(x);
    Result::from(c)
}
fn exec_coption_roundtrip<T>(c: COption<T>) -> (r: COption<T>)
    ensures r == c
{
    let o: Option<T> = Option::from(c);
    COption::from(o)
}
fn exec_cresult_roundtrip<T, E>(c: CResult<T, E>) -> (r: CResult<T, E>)
    ensures r == c
{
    let o: Result<T, E> = Result::from(c);
    CResult::from(o)
}
// unwrap after the conversions: the payload that went in comes out (callers see only the contracts)
fn exec_some_unwrap<T>(t: T) -> (r: T)
    ensures r == t
{
    let c: COption<T> = COption::from(Some(t));
    c.unwrap()
}
fn exec_ok_unwrap<T, E: core::fmt::Debug>(t: T) -> (r: T)
    ensures r == t
{
    let c: CResult<T, E> = CResult::from(Ok(t));
    c.unwrap()
}
// vacuity canary: must FAIL
proof fn canary_c12_must_fail<T>(o: Option<T>)
    ensures opt_to_c(o) is None
{}

#!/usr/bin/env python3
"""Mechanical extraction of functions from /repo into one Verus file (DESIGN.md section 2.2).

Every function body in the emitted file is copied byte-for-byte from /repo's working tree.  The only
transformations are E1..E5 below; each application is logged, and `verify_bodies` re-reads the
emitted file and checks every function body against the source text.

 E1  drop attribute lines listed in the spec's "drop_attrs" (cfg_attr(feature = "abi_stable"), derive
     lines that expand outside verus!, cfg(feature = ..) gates of the feature under verification)
 E2  (subsumed by E1: #[derive(Clone, Copy)] on COption)
 E3  textual replacements listed in the spec's "replace" (only `pub trait IntError` ->
     `pub trait IntError: Sized`)
 E4  for functions listed under "fns": name the return value and insert requires/ensures between the
     signature and the body; functions of an extracted impl that are not listed are dropped (logged)
 E5  wrap in verus!{}, prepend the prelude, append spec impls / lemmas from the .appendix.rs file
"""
import json, os, re, hashlib

HERE = os.path.dirname(os.path.abspath(__file__))


class LostAnchor(Exception):
    pass


def _skip_noncode(s, i):
    """If s[i:] starts a comment/string/char literal, return index after it, else None."""
    if s.startswith("//", i):
        j = s.find("\n", i)
        return len(s) if j < 0 else j
    if s.startswith("/*", i):
        j = s.find("*/", i + 2)
        return len(s) if j < 0 else j + 2
    if s[i] == '"':
        j = i + 1
        while j < len(s):
            if s[j] == "\\":
                j += 2
                continue
            if s[j] == '"':
                return j + 1
            j += 1
        return len(s)
    if s[i] == "'":
        # char literal or lifetime
        m = re.match(r"'(\\.|[^\\'])'", s[i:])
        if m:
            return i + m.end()
        return None
    return None


def match_brace(s, i):
    """s[i] == '{' -> index of the matching '}'"""
    assert s[i] == "{"
    depth, j = 0, i
    while j < len(s):
        k = _skip_noncode(s, j)
        if k is not None:
            j = k
            continue
        if s[j] == "{":
            depth += 1
        elif s[j] == "}":
            depth -= 1
            if depth == 0:
                return j
        j += 1
    raise LostAnchor("unbalanced braces")


def find_item(src, header):
    """Locate an item whose first line starts with `header`.  Returns (attr_start, item_start, body_open, end)."""
    pat = re.compile(r"^[ \t]*" + re.escape(header) + r"(?![\w])", re.M)
    ms = list(pat.finditer(src))
    if len(ms) != 1:
        raise LostAnchor(f"header {header!r} found {len(ms)} times")
    start = ms[0].start()
    # preceding attribute / doc lines
    lines_before = src[:start].split("\n")
    k = len(lines_before) - 1  # index of the (empty) partial line
    a = start
    idx = k - 1
    while idx >= 0 and re.match(r"^\s*(#\[|///|//!)", lines_before[idx]):
        a -= len(lines_before[idx]) + 1
        idx -= 1
    # body
    j = start
    while j < len(src):
        kx = _skip_noncode(src, j)
        if kx is not None:
            j = kx
            continue
        if src[j] == "{":
            break
        if src[j] == ";":
            return a, start, None, j + 1
        j += 1
    end = match_brace(src, j)
    return a, start, j, end + 1


def split_fns(body):
    """Yield (name, attr_start, fn_start, body_open, end) for each fn directly inside an impl/trait body."""
    out, j, depth = [], 0, 0
    n = len(body)
    while j < n:
        k = _skip_noncode(body, j)
        if k is not None:
            j = k
            continue
        c = body[j]
        if c == "{":
            depth += 1
        elif c == "}":
            depth -= 1
        elif depth == 0:
            m = re.match(r"((?:pub(?:\([^)]*\))?\s+)?(?:const\s+)?(?:unsafe\s+)?(?:extern\s+\"C\"\s+)?fn\s+(\w+))", body[j:])
            if m and (j == 0 or not (body[j - 1].isalnum() or body[j - 1] == "_")):
                name = m.group(2)
                # attr/doc lines before
                ls = body[:j].split("\n")
                a = j - len(ls[-1])
                idx = len(ls) - 2
                while idx >= 0 and re.match(r"^\s*(#\[|///)", ls[idx]):
                    a -= len(ls[idx]) + 1
                    idx -= 1
                # find body open or ';'
                p = j
                while p < n:
                    kk = _skip_noncode(body, p)
                    if kk is not None:
                        p = kk
                        continue
                    if body[p] in "{;":
                        break
                    p += 1
                if body[p] == ";":
                    out.append((name, a, j, None, p + 1))
                    j = p + 1
                    continue
                e = match_brace(body, p)
                out.append((name, a, j, p, e + 1))
                j = e + 1
                continue
        j += 1
    return out


def apply_spec(sig, spec):
    """sig: text from 'fn' (or 'pub fn') up to (not including) the body '{'.  Insert return name and clauses."""
    s = sig.rstrip()
    where = ""
    m = re.search(r"\n\s*where\b", s)
    if m:
        where = s[m.start():]
        s = s[:m.start()].rstrip()
    ret = spec.get("ret")
    if ret:
        # last top-level '->'
        i = s.rfind("->")
        if i < 0:
            raise LostAnchor("no return type to name in: " + sig)
        rty = s[i + 2:].strip()
        s = s[:i] + f"-> ({ret}: {rty})"
    clauses = ""
    if spec.get("requires"):
        clauses += "\n        requires " + ",\n            ".join(spec["requires"]) + ","
    if spec.get("ensures"):
        clauses += "\n        ensures " + ",\n            ".join(spec["ensures"]) + ","
    return s + where + clauses + "\n    "


def drop_attrs(text, drops, log, what):
    out = []
    for line in text.split("\n"):
        st = line.strip()
        if any(st.startswith(d) for d in drops):
            log.append(f"E1 dropped attribute on {what}: {st}")
            continue
        out.append(line)
    return "\n".join(out)


def build(spec_name, repo, outfile):
    spec = json.load(open(os.path.join(HERE, "specs", spec_name + ".json")))
    log, chunks, bodies = [], [], []
    drops = spec.get("drop_attrs", [])
    for it in spec["items"]:
        path = os.path.join(repo, it["file"])
        try:
            src = open(path).read()
        except OSError as e:
            raise LostAnchor(str(e))
        a, start, bopen, end = find_item(src, it["header"])
        attrs = drop_attrs(src[a:start], drops, log, it["header"])
        attrs = "\n".join(l for l in attrs.split("\n") if not l.strip().startswith("///"))
        text = src[start:end]
        for old, new in it.get("replace", []):
            if old not in text:
                raise LostAnchor(f"replace anchor {old!r} missing in {it['header']}")
            text = text.replace(old, new, 1)
            log.append(f"E3 {it['file']}: {old!r} -> {new!r}")
        if it.get("fns") is not None:
            # impl/trait block: keep listed fns, insert specs
            hdr_end = text.index("{", 0) if bopen is not None else None
            body = src[bopen + 1:end - 1]
            head = src[start:bopen + 1]
            for old, new in it.get("replace", []):
                head = head.replace(old, new, 1)
            pieces = [head]
            seen = set()
            for name, fa, fs, fb, fe in split_fns(body):
                if name not in it["fns"]:
                    log.append(f"E4 dropped fn {it['header']}::{name} (outside the verified subset / not under contract)")
                    continue
                seen.add(name)
                fspec = it["fns"][name] or {}
                fattrs = drop_attrs(body[fa:fs], drops, log, name)
                fattrs = "\n".join(l for l in fattrs.split("\n") if not l.strip().startswith("///"))
                if fb is None:
                    pieces.append("\n" + fattrs + body[fs:fe])
                    continue
                sig = body[fs:fb]
                newsig = apply_spec(sig, fspec) if fspec else sig
                fbody = body[fb:fe]
                marker = f"// @extracted {it['file']} :: {it['header']} :: {name}\n    "
                pieces.append("\n    " + marker + fattrs.strip() + ("\n    " if fattrs.strip() else "") + newsig + fbody + "\n")
                bodies.append({"file": it["file"], "item": it["header"], "fn": name, "sha256": hashlib.sha256(fbody.encode()).hexdigest(), "body": fbody})
                if fspec:
                    log.append(f"E4 contract inserted on {it['header']}::{name}: {json.dumps(fspec)}")
            missing = set(it["fns"]) - seen
            if missing:
                raise LostAnchor(f"functions {sorted(missing)} not found in {it['header']}")
            pieces.append("}\n")
            chunks.append(attrs + "".join(pieces))
        elif it.get("spec") and bopen is not None:
            # free function with a contract
            sig = src[start:bopen]
            fbody = src[bopen:end]
            name = re.search(r"fn\s+(\w+)", sig).group(1)
            marker = f"// @extracted {it['file']} :: {it['header']} :: {name}\n"
            chunks.append(marker + attrs + apply_spec(sig, it["spec"]) + fbody + "\n")
            bodies.append({"file": it["file"], "item": it["header"], "fn": name, "sha256": hashlib.sha256(fbody.encode()).hexdigest(), "body": fbody})
            log.append(f"E4 contract inserted on {name}: {json.dumps(it['spec'])}")
        else:
            # whole item verbatim; record bodies of its fns
            chunks.append(attrs + text + "\n")
            if bopen is not None and re.match(r"\s*(impl|pub trait|trait)", it["header"]):
                body = src[bopen + 1:end - 1]
                for name, fa, fs, fb, fe in split_fns(body):
                    if fb is not None:
                        fbody = body[fb:fe]
                        bodies.append({"file": it["file"], "item": it["header"], "fn": name, "sha256": hashlib.sha256(fbody.encode()).hexdigest(), "body": fbody, "verbatim_item": True})
            log.append(f"item copied verbatim: {it['file']} :: {it['header']}")
    appendix = open(os.path.join(HERE, "specs", spec_name + ".appendix.rs")).read()
    out = spec.get("prelude", "use vstd::prelude::*;\n") + "\nverus! {\n\n" + "\n".join(chunks) + "\n// ---- appended specifications and lemmas (E5) ----\n" + appendix + "\n} // verus!\nfn main() {}\n"
    os.makedirs(os.path.dirname(outfile), exist_ok=True)
    open(outfile, "w").write(out)
    log.append("E5 wrapped in verus!{}, appended " + spec_name + ".appendix.rs")
    ok = verify_bodies(out, bodies)
    log.append(f"self-check: {ok} function bodies in the emitted file are byte-identical to /repo's source")
    return {"transformations": log, "functions": [{k: b[k] for k in ("file", "item", "fn", "sha256")} for b in bodies]}


def verify_bodies(out, bodies):
    n = 0
    for b in bodies:
        if b.get("verbatim_item"):
            if b["body"] not in out:
                raise LostAnchor(f"self-check failed: body of {b['fn']} not found verbatim")
            n += 1
            continue
        marker = f"// @extracted {b['file']} :: {b['item']} :: {b['fn']}\n"
        i = out.find(marker)
        if i < 0:
            raise LostAnchor("self-check failed: marker missing for " + b["fn"])
        # the body is the first top-level '{' after the signature+clauses: find the source body text right there
        j = out.find(b["body"], i)
        nxt = out.find("// @extracted", i + 10)
        if j < 0 or (nxt >= 0 and j > nxt):
            raise LostAnchor(f"self-check failed: body of {b['fn']} differs from source")
        n += 1
    return n


def owner_of_line(path, line):
    try:
        lines = open(path).read().split("\n")
    except OSError:
        return "?"
    for i in range(min(line, len(lines)) - 1, -1, -1):
        m = re.search(r"\b(?:proof\s+)?fn\s+(\w+)", lines[i])
        if m:
            return m.group(1)
    return "?"


if __name__ == "__main__":
    import sys
    r = build(sys.argv[1], sys.argv[2] if len(sys.argv) > 2 else "/repo", sys.argv[3] if len(sys.argv) > 3 else "/tmp/verus_out.rs")
    print(json.dumps(r["transformations"], indent=1))

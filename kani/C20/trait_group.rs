// C20 — verdict algebra and the Unknown rule (Kani; --features layout_checks)
use super::{compare_layouts, VerifyLayout};

fn any_verdict() -> VerifyLayout {
    let k: u8 = kani::any();
    kani::assume(k < 3);
    match k { 0 => VerifyLayout::Valid, 1 => VerifyLayout::Invalid, _ => VerifyLayout::Unknown }
}

impl kani::Arbitrary for VerifyLayout {
    fn any() -> Self { any_verdict() }
}

//@ prefix=c_and kind=property clause=in-place contract on VerifyLayout::and: Invalid-absorbing, Unknown dominates Valid (all 9 ordered pairs)
#[kani::proof_for_contract(VerifyLayout::and)]
fn c_and() {
    let a = any_verdict();
    let b = any_verdict();
    let _ = a.and(b);
}
//@ prefix=p_and kind=property clause=all 9 ordered pairs of verdicts combine as the statement says; is_valid_strict/is_valid_relaxed agree
#[kani::proof]
fn p_and_table() {
    use VerifyLayout::*;
    assert!(Valid.and(Valid) == Valid, "C20 Valid&Valid");
    assert!(Valid.and(Unknown) == Unknown, "C20 Valid&Unknown");
    assert!(Unknown.and(Valid) == Unknown, "C20 Unknown&Valid");
    assert!(Unknown.and(Unknown) == Unknown, "C20 Unknown&Unknown");
    assert!(Invalid.and(Valid) == Invalid, "C20 Invalid&Valid");
    assert!(Valid.and(Invalid) == Invalid, "C20 Valid&Invalid");
    assert!(Invalid.and(Unknown) == Invalid, "C20 Invalid&Unknown");
    assert!(Unknown.and(Invalid) == Invalid, "C20 Unknown&Invalid");
    assert!(Invalid.and(Invalid) == Invalid, "C20 Invalid&Invalid");
    assert!(Valid.is_valid_strict() && !Unknown.is_valid_strict() && !Invalid.is_valid_strict(), "C20 is_valid_strict");
    assert!(Valid.is_valid_relaxed() && Unknown.is_valid_relaxed() && !Invalid.is_valid_relaxed(), "C20 is_valid_relaxed");
    kani::cover!(true, "reaches end");
}
#[kani::proof]
#[kani::stub_verified(VerifyLayout::and)]
fn p_and_fold_modular() {
    // a caller folding verdicts, checked against the contract of `and` only
    let a = any_verdict();
    let b = any_verdict();
    let c = any_verdict();
    let all_valid = a == VerifyLayout::Valid && b == VerifyLayout::Valid && c == VerifyLayout::Valid;
    let any_invalid = a == VerifyLayout::Invalid || b == VerifyLayout::Invalid || c == VerifyLayout::Invalid;
    let r = a.and(b).and(c);
    assert!(r.is_valid_strict() == all_valid, "C20 fold is Valid only if every verdict is Valid");
    assert!((r == VerifyLayout::Invalid) == any_invalid, "C20 fold is Invalid exactly if some verdict is Invalid");
    kani::cover!(all_valid, "all valid");
    kani::cover!(any_invalid, "some invalid");
}
//@ prefix=p_unknown kind=property clause=a missing layout description on either side yields Unknown, and the external checker is not consulted; with both present the verdict is the checker's (Ok -> Valid)
static mut CHECKER_CALLS: u32 = 0;
static mut CHECKER_ARGS: (usize, usize) = (0, 0);
/// abi_stable's checker is external and not under contract (its body also makes Kani 0.68's
/// compiler panic: intrinsics.rs:243).  Recording stub with a symbolic verdict.
static mut CHECKER_OK: bool = true;
extern "C" fn stub_checker(
    a: &'static abi_stable::type_layout::TypeLayout,
    b: &'static abi_stable::type_layout::TypeLayout,
) -> abi_stable::std_types::RResult<(), abi_stable::std_types::RBoxError> {
    unsafe {
        CHECKER_CALLS += 1;
        CHECKER_ARGS = (a as *const _ as usize, b as *const _ as usize);
        if CHECKER_OK { abi_stable::std_types::ROk(()) } else { abi_stable::std_types::RErr(abi_stable::std_types::RBoxError::new(core::fmt::Error)) }
    }
}
fn fake_layout(off: usize) -> &'static abi_stable::type_layout::TypeLayout {
    // never dereferenced (the checker is stubbed): only its address matters
    static BACKING: [u64; 64] = [0; 64];
    unsafe { &*(BACKING.as_ptr().add(off) as *const abi_stable::type_layout::TypeLayout) }
}
#[kani::proof]
#[kani::stub(abi_stable::abi_stability::check_layout_compatibility, stub_checker)]
fn p_unknown_missing() {
    let l = fake_layout(0);
    assert!(compare_layouts(None, None) == VerifyLayout::Unknown, "C20 None/None is Unknown");
    assert!(compare_layouts(Some(l), None) == VerifyLayout::Unknown, "C20 Some/None is Unknown");
    assert!(compare_layouts(None, Some(l)) == VerifyLayout::Unknown, "C20 None/Some is Unknown");
    unsafe { assert!(CHECKER_CALLS == 0, "C20 the checker is not consulted when a description is missing") };
    kani::cover!(true, "reaches end");
}
#[kani::proof]
#[kani::stub(abi_stable::abi_stability::check_layout_compatibility, stub_checker)]
fn p_unknown_present_delegates() {
    let (e, f) = (fake_layout(0), fake_layout(8));
    let ok: bool = kani::any();
    unsafe { CHECKER_OK = ok };
    let v = compare_layouts(Some(e), Some(f));
    unsafe {
        assert!(CHECKER_CALLS == 1, "C20 both present: the checker is consulted exactly once");
        assert!(CHECKER_ARGS == (e as *const _ as usize, f as *const _ as usize), "C20 checker gets (expected, found) in that order");
    }
    assert!((v == VerifyLayout::Valid) == ok, "C20 Valid exactly when the checker accepts");
    assert!((v == VerifyLayout::Invalid) == !ok, "C20 Invalid exactly when the checker rejects");
    kani::cover!(ok, "accepts");
    kani::cover!(!ok, "rejects");
}
#[kani::proof]
#[kani::stub(abi_stable::abi_stability::check_layout_compatibility, stub_checker)]
fn p_unknown_check_generic_delegates() {
    // VerifyLayout::check::<T>(found): T's own description is the EXPECTED side, the argument the
    // FOUND side (the checker is not symmetric: the expected side may be the more permissive one)
    let f = fake_layout(8);
    let ok: bool = kani::any();
    unsafe { CHECKER_OK = ok };
    let v = VerifyLayout::check::<u64>(Some(f));
    unsafe {
        assert!(CHECKER_CALLS == 1, "C20 check::<T>: the checker is consulted exactly once");
        assert!(CHECKER_ARGS == (<u64 as abi_stable::StableAbi>::LAYOUT as *const _ as usize, f as *const _ as usize), "C20 check::<T> passes (T's description, found description) in that order");
    }
    assert!((v == VerifyLayout::Valid) == ok && (v == VerifyLayout::Invalid) == !ok, "C20 check::<T>: Valid exactly when the checker accepts");
    assert!(VerifyLayout::check::<u64>(None) == VerifyLayout::Unknown, "C20 check::<T>(None) is Unknown");
    unsafe { assert!(CHECKER_CALLS == 1, "C20 and does not consult the checker") };
    kani::cover!(ok, "accepts");
    kani::cover!(!ok, "rejects");
}
//@ prefix=canary kind=canary clause=vacuity canary
#[kani::proof]
fn canary_c20() {
    let a = any_verdict();
    let b = any_verdict();
    assert!(a.and(b) != VerifyLayout::Unknown, "canary: deliberately false");
}

#!/usr/bin/env python3
"""Expands /*INSTANCES*/ in vec.rs into one #[kani::proof] per (operation, element type, shape)."""
import sys
TY = {"u8": "u8", "u64": "u64", "z": "Z", "d": "D", "zd": "Zd"}
QUICK = [(0, 0), (1, 1), (2, 3)]
THOROUGH = [(l, c) for l in range(0, 5) for c in (l, l + 2)] + [(5, 5), (5, 7), (6, 6)]
def instances(tier):
    shapes = QUICK if tier == "quick" else THOROUGH
    out = []
    for tn, t in TY.items():
        if tier == "quick" and tn == "u8":
            continue
        for (l, c) in shapes:
            if tn == "zd" and (l, c) not in [(0, 0), (2, 3)]:
                continue
            sfx = f"{tn}_{l}_{c}"
            out.append(f"inst!(p_push_{sfx}, check_push, {t}, {l}, {c});")
            out.append(f"inst!(p_pop_{sfx}, check_pop, {t}, {l}, {c});")
            out.append(f"inst!(p_insert_{sfx}, check_insert, {t}, {l}, {c});")
            if tn != "zd":  # <[T]>::to_vec over a zero-sized non-Copy type does not terminate under CBMC (std code, not CVec's)
                out.append(f"inst!(p_clone_{sfx}, check_clone, {t}, {l}, {c});")
            for n in ([1, 2] if tier == "quick" else ([0, 1, 2, 5] if tn in ("u64", "d") else [1])):
                if tier == "quick" and tn == "z" and n == 2: continue
                out.append(f"inst!(p_reserve_{sfx}_n{n}, check_reserve, {t}, {l}, {c}, {n});")
            if l > 0:
                out.append(f"inst!(p_remove_{sfx}, check_remove, {t}, {l}, {c});")
                out.append(f"inst!(p_write_{sfx}, check_write, {t}, {l}, {c});")
            if (tier == "thorough" and l <= 2) or ((l, c) == (1, 1) and tn == "u64"):
                out.append(f"inst!(p_seq_{sfx}, check_seq, {t}, {l}, {c});")
    # clone_from: (destination shape) x (source shape)
    pairs = [((2, 3), (1, 1)), ((1, 1), (2, 3)), ((2, 3), (0, 0))] if tier == "quick" else [((2, 3), (1, 1)), ((1, 1), (2, 3)), ((2, 3), (0, 0)), ((0, 0), (2, 2)), ((3, 3), (2, 4)), ((2, 2), (2, 2))]
    for tn in (("u64", "d") if tier == "quick" else ("u64", "d", "z")):
        for (l, c), (l2, c2) in pairs:
            out.append(f"inst!(p_clonefrom_{tn}_{l}_{c}_from_{l2}_{c2}, check_clone_from, {TY[tn]}, {l}, {c}, {l2}, {c2});")
    return "\n".join(out)
if __name__ == "__main__":
    print(instances(sys.argv[1]))

// C11 — CVec is observationally a Vec.  Harness contracts on the real vec.rs.
//
// WF(cv): (data,len,capacity) are the raw parts of one live Vec<T> allocation, len <= capacity,
// drop_fn/reserve_fn are the functions installed by From<Vec<T>>.  Every WF state of shape
// (LEN,CAP) is CVec::from(v) for some Vec v of that shape, so each harness below starts from an
// arbitrary WF state of its shape (contents symbolic) and ends in a WF state (checked operationally:
// drop(cv) raises no pointer/dealloc-size obligation and the leak check passes) => histories by
// induction, within the explored shapes.
// Oracle: std::vec::Vec<u8> of element tags subjected to the same operation.
use super::{cglue_drop_vec, cglue_reserve_vec, CVec};
use std::vec::Vec;
use std::boxed::Box;

static mut CREATED: u32 = 0;
static mut DROPS: u32 = 0;
fn created() -> u32 { unsafe { CREATED } }
fn drops() -> u32 { unsafe { DROPS } }

trait Elem: Clone {
    fn mk(tag: u8) -> Self;
    fn tag(&self) -> u8;
    const COUNTED: bool;
}
impl Elem for u8 {
    fn mk(tag: u8) -> Self { tag }
    fn tag(&self) -> u8 { *self }
    const COUNTED: bool = false;
}
impl Elem for u64 {
    // spread the tag over all bytes so a partial or misaligned copy is visible
    fn mk(tag: u8) -> Self { (tag as u64) * 0x0101_0101_0101_0101 ^ 0xA500_0000_0000_005A }
    fn tag(&self) -> u8 {
        let x = *self ^ 0xA500_0000_0000_005A;
        assert!(x == ((x & 0xff) * 0x0101_0101_0101_0101), "C11 element bytes intact");
        (x & 0xff) as u8
    }
    const COUNTED: bool = false;
}
#[derive(Clone, Copy)]
struct Z;
impl Elem for Z {
    fn mk(_tag: u8) -> Self { Z }
    fn tag(&self) -> u8 { 0 }
    const COUNTED: bool = false;
}
/// zero-sized element WITH a destructor (counted)
struct Zd;
impl Clone for Zd { fn clone(&self) -> Self { Zd::mk(0) } }
impl Drop for Zd { fn drop(&mut self) { unsafe { DROPS += 1 } } }
impl Elem for Zd {
    fn mk(_tag: u8) -> Self { unsafe { CREATED += 1 }; Zd }
    fn tag(&self) -> u8 { 0 }
    const COUNTED: bool = true;
}
/// heap-owning element with creation/drop counters
struct D { tag: u8, heap: Box<u8> }
impl Clone for D {
    fn clone(&self) -> Self { D::mk(self.tag) }
}
impl Drop for D {
    fn drop(&mut self) {
        assert!(*self.heap == self.tag ^ 0x3c, "C11 dropped element is a real, intact element");
        unsafe { DROPS += 1 };
    }
}
impl Elem for D {
    fn mk(tag: u8) -> Self { unsafe { CREATED += 1 }; D { tag, heap: Box::new(tag ^ 0x3c) } }
    fn tag(&self) -> u8 { assert!(*self.heap == self.tag ^ 0x3c, "C11 element heap intact"); self.tag }
    const COUNTED: bool = true;
}
fn ztag<T: Elem>(t: u8) -> u8 { T::mk(t).tag() }

/// arbitrary WF state of shape (LEN,CAP) + oracle
fn state<T: Elem, const LEN: usize, const CAP: usize>() -> (CVec<T>, Vec<u8>) {
    let mut v: Vec<T> = Vec::with_capacity(CAP);
    let mut o: Vec<u8> = Vec::with_capacity(CAP);
    let mut i = 0;
    while i < LEN {
        let t: u8 = kani::any();
        let e = T::mk(t);
        o.push(e.tag());
        v.push(e);
        i += 1;
    }
    assert!(v.capacity() == CAP || core::mem::size_of::<T>() == 0);
    let p = v.as_ptr();
    let cap = v.capacity();
    let cv = CVec::from(v);
    assert!(cv.as_ptr() == p && cv.len() == LEN && cv.capacity() == cap, "C11 From<Vec> keeps pointer, length and capacity");
    (cv, o)
}

fn same<T: Elem>(cv: &CVec<T>, o: &Vec<u8>) {
    assert!(cv.len() == o.len(), "C11 same length as the Vec oracle");
    assert!((&**cv).len() == o.len(), "C11 the slice view has the same length as the Vec oracle");
    assert!(cv.is_empty() == o.is_empty(), "C11 is_empty agrees");
    assert!(cv.capacity() >= cv.len(), "C11 capacity >= length");
    let n = o.len();
    let mut i = 0;
    while i < n {
        assert!(cv[i].tag() == o[i], "C11 same elements in the same order as the Vec oracle");
        i += 1;
    }
}

fn finish<T: Elem>(cv: CVec<T>) {
    drop(cv);
    if T::COUNTED {
        assert!(drops() == created(), "C11 every element dropped exactly once");
    }
}

fn check_push<T: Elem, const LEN: usize, const CAP: usize>() {
    let (mut cv, mut o) = state::<T, LEN, CAP>();
    let t: u8 = kani::any();
    o.push(ztag::<T>(t));
    cv.push(T::mk(t));
    same(&cv, &o);
    if T::COUNTED { assert!(drops() == 1, "C11 push drops nothing (only the oracle's temporary)"); }
    finish(cv);
}
fn check_pop<T: Elem, const LEN: usize, const CAP: usize>() {
    let (mut cv, mut o) = state::<T, LEN, CAP>();
    let cap = cv.capacity();
    let r = cv.pop();
    let ro = o.pop();
    assert!(r.is_some() == ro.is_some(), "C11 pop returns Some exactly when non-empty");
    if let Some(ref e) = r { assert!(e.tag() == ro.unwrap(), "C11 pop returns the last element"); }
    same(&cv, &o);
    if T::COUNTED { assert!(drops() == 0, "C11 pop moves the element out without dropping"); }
    drop(r);
    finish(cv);
}
fn check_insert<T: Elem, const LEN: usize, const CAP: usize>() {
    let (mut cv, mut o) = state::<T, LEN, CAP>();
    let i: usize = kani::any();
    kani::assume(i <= LEN);
    let t: u8 = kani::any();
    o.insert(i, ztag::<T>(t));
    cv.insert(i, T::mk(t));
    same(&cv, &o);
    kani::cover!(i == 0, "insert at front");
    kani::cover!(i == LEN, "insert at end");
    finish(cv);
}
fn check_remove<T: Elem, const LEN: usize, const CAP: usize>() {
    let (mut cv, mut o) = state::<T, LEN, CAP>();
    let i: usize = kani::any();
    kani::assume(i < LEN);
    let cap = cv.capacity();
    let r = cv.remove(i);
    let ro = o.remove(i);
    assert!(r.tag() == ro, "C11 remove returns the element at the index");
    same(&cv, &o);
    if T::COUNTED { assert!(drops() == 0, "C11 remove moves the element out without dropping"); }
    drop(r);
    kani::cover!(i == 0, "remove first");
    kani::cover!(i + 1 == LEN, "remove last");
    finish(cv);
}
fn check_reserve<T: Elem, const LEN: usize, const CAP: usize, const N: usize>() {
    let (mut cv, o) = state::<T, LEN, CAP>();
    let p = cv.as_ptr();
    let cap = cv.capacity();
    cv.reserve(N);
    assert!(cv.capacity() - cv.len() >= N, "C11 reserve(n) leaves room for n more");
    same(&cv, &o);
    finish(cv);
}
fn check_clone<T: Elem, const LEN: usize, const CAP: usize>() {
    let (cv, o) = state::<T, LEN, CAP>();
    let c2 = cv.clone();
    same(&c2, &o);
    same(&cv, &o);
    assert!(LEN == 0 || core::mem::size_of::<T>() == 0 || c2.as_ptr() != cv.as_ptr(), "C11 clone owns a separate buffer");
    if kani::any() { drop(cv); same(&c2, &o); finish(c2); } else { drop(c2); same(&cv, &o); finish(cv); }
}
fn check_clone_from<T: Elem, const LEN: usize, const CAP: usize, const L2: usize, const C2: usize>() {
    // assignment by clone_from, into a longer / shorter / empty destination
    let (mut dst, _od) = state::<T, LEN, CAP>();
    let (src, o) = state::<T, L2, C2>();
    dst.clone_from(&src);
    same(&dst, &o);
    same(&src, &o);
    assert!(L2 == 0 || core::mem::size_of::<T>() == 0 || dst.as_ptr() != src.as_ptr(), "C11 clone_from leaves the target with its own buffer");
    if T::COUNTED { assert!(created() - drops() == 2 * L2 as u32, "C11 after clone_from exactly the source's and the target's elements are alive: every replaced element was dropped exactly once"); }
    if kani::any() { drop(src); same(&dst, &o); finish(dst); } else { drop(dst); same(&src, &o); finish(src); }
}
fn check_write<T: Elem, const LEN: usize, const CAP: usize>() {
    let (mut cv, mut o) = state::<T, LEN, CAP>();
    let i: usize = kani::any();
    kani::assume(i < LEN);
    let t: u8 = kani::any();
    {
        let ms: &mut [T] = &mut *cv;
        assert!(ms.len() == LEN, "C11 the mutable view covers exactly the elements (not the spare capacity)");
        let rs: &[T] = &*cv;
        assert!(rs.len() == LEN && rs.as_ptr() == cv.as_ptr(), "C11 the shared view covers exactly the elements");
    }
    o[i] = ztag::<T>(t);
    cv[i] = T::mk(t);
    same(&cv, &o);
    assert!(cv.as_mut_ptr() as *const T == cv.as_ptr());
    finish(cv);
}
/// three-step history from an arbitrary WF state (push; insert; remove/pop) — closes the gap between
/// the per-operation harnesses (growth path included when LEN == CAP)
fn check_seq<T: Elem, const LEN: usize, const CAP: usize>() {
    let (mut cv, mut o) = state::<T, LEN, CAP>();
    let t: u8 = kani::any();
    o.push(ztag::<T>(t)); cv.push(T::mk(t));
    let i: usize = kani::any();
    kani::assume(i <= LEN + 1);
    let t2: u8 = kani::any();
    o.insert(i, ztag::<T>(t2)); cv.insert(i, T::mk(t2));
    same(&cv, &o);
    if kani::any() {
        let j: usize = kani::any();
        kani::assume(j < LEN + 2);
        let r = cv.remove(j); assert!(r.tag() == o.remove(j));
    } else {
        let r = cv.pop(); assert!(r.unwrap().tag() == o.pop().unwrap());
    }
    same(&cv, &o);
    finish(cv);
}

macro_rules! inst {
    ($name:ident, $f:ident, $($g:tt)*) => {
        #[kani::proof]
        fn $name() { $f::<$($g)*>(); kani::cover!(true, "reaches end"); }
    };
}
//@ prefix=p_from kind=property clause=From<Vec>/default/drop: same pointer, length, capacity; every element dropped exactly once; buffer freed with its allocation size
//@ prefix=p_push kind=property clause=push: same elements/length as Vec::push; capacity >= length; growth through the stored reserve function
//@ prefix=p_pop kind=property clause=pop: same result and remaining elements as Vec::pop; nothing dropped
//@ prefix=p_insert kind=property clause=insert(i<=len): same elements/order/length as Vec::insert
//@ prefix=p_remove kind=property clause=remove(i<len): same result and remaining elements as Vec::remove
//@ prefix=p_reserve kind=property clause=reserve(n): capacity-length >= n afterwards, contents unchanged, no reallocation when room suffices
//@ prefix=p_clone kind=property clause=clone: equal contents, separate buffer, both independently droppable
//@ prefix=p_write kind=property clause=in-place write through DerefMut at a symbolic index matches Vec
//@ prefix=p_seq kind=property clause=three-step history (push, insert at symbolic index, remove/pop) matches Vec
//@ prefix=p_oob kind=panic clause=insert(i>len) / remove(i>=len) panic for every out-of-range index (never return)
//@ prefix=p_stored kind=property clause=buffer is grown and freed only through the functions stored in the CVec, with the current (data,len,capacity)
//@ prefix=canary kind=canary clause=vacuity canary: false claim behind the same state constructor must fail
/*INSTANCES*/

/// clone over a ZERO-SIZED element type with observable Clone / Drop (the generated instances skip
/// it: std's to_vec needs an explicit unwinding bound there)
#[kani::proof]
#[kani::unwind(6)]
fn p_clone_zst_counted() {
    let (cv, o) = state::<Zd, 2, 3>();
    assert!(created() == 2 && drops() == 0);
    let c2 = cv.clone();
    same(&c2, &o);
    assert!(created() == 4 && drops() == 0, "C11 clone creates exactly one new element per source element (zero-sized elements included)");
    drop(cv);
    assert!(drops() == 2, "C11 dropping the source drops exactly its elements");
    finish(c2);
    kani::cover!(true, "reaches end");
}
#[kani::proof]
fn p_from_default() {
    let cv: CVec<u64> = CVec::default();
    assert!(cv.len() == 0 && cv.is_empty() && cv.capacity() == 0, "C11 default is the empty vector");
    assert!(cv.drop_fn.is_some());
    let mut cv = cv;
    cv.push(7);
    cv.push(9);
    assert!(cv.len() == 2 && cv[0] == 7 && cv[1] == 9 && cv.capacity() >= 2, "C11 push onto default");
    drop(cv);
    kani::cover!(true, "reaches end");
}

// ---- out-of-range: must panic for every such index -------------------------------------------
#[kani::proof]
#[kani::should_panic]
fn p_oob_insert() {
    let (mut cv, _o) = state::<u64, 2, 3>();
    let i: usize = kani::any();
    kani::assume(i > 2);
    cv.insert(i, 1);
    kani::cover!(true, "MUST-NOT-REACH: insert returned for an out-of-range index");
}
#[kani::proof]
#[kani::should_panic]
fn p_oob_remove() {
    let (mut cv, _o) = state::<u64, 2, 3>();
    let i: usize = kani::any();
    kani::assume(i >= 2);
    let _ = cv.remove(i);
    kani::cover!(true, "MUST-NOT-REACH: remove returned for an out-of-range index");
}
#[kani::proof]
#[kani::should_panic]
fn p_oob_index_write() {
    // in-place write past the length (inside the spare capacity) must panic like Vec's
    let (mut cv, _o) = state::<u64, 2, 3>();
    let i: usize = kani::any();
    kani::assume(i >= 2);
    cv[i] = 1;
    kani::cover!(true, "MUST-NOT-REACH: indexing past the length returned");
}
#[kani::proof]
#[kani::should_panic]
fn p_oob_remove_empty() {
    let (mut cv, _o) = state::<D, 0, 0>();
    let i: usize = kani::any();
    let _ = cv.remove(i);
    kani::cover!(true, "MUST-NOT-REACH: remove returned on an empty vector");
}

// ---- stored functions -------------------------------------------------------------------------
static mut REC_DROP: u32 = 0;
static mut REC_DROP_ARGS: (usize, usize, usize) = (0, 0, 0);
static mut REC_RESERVE: u32 = 0;
static mut REC_RESERVE_N: usize = 0;
unsafe extern "C" fn rec_drop(data: *mut u64, len: usize, cap: usize) {
    REC_DROP += 1;
    REC_DROP_ARGS = (data as usize, len, cap);
    cglue_drop_vec::<u64>(data, len, cap)
}
extern "C" fn rec_reserve(v: &mut CVec<u64>, n: usize) -> usize {
    unsafe { REC_RESERVE += 1; REC_RESERVE_N = n; }
    cglue_reserve_vec::<u64>(v, n)
}
fn stored<const LEN: usize, const CAP: usize>() -> CVec<u64> {
    let (cv, _o) = state::<u64, LEN, CAP>();
    let cv = core::mem::ManuallyDrop::new(cv);
    CVec { data: cv.data, len: cv.len, capacity: cv.capacity, drop_fn: Some(rec_drop), reserve_fn: rec_reserve }
}
/// "out-of-range insert panics WITHOUT MODIFYING the vector": the state after a panic cannot be
/// observed under Kani, but on a FULL vector any modification before the index check must first
/// grow the buffer through the stored function — which therefore must not be reached
extern "C" fn oob_reserve(v: &mut CVec<u64>, n: usize) -> usize {
    kani::cover!(true, "MUST-NOT-REACH: the vector was grown (modified) before the out-of-range index was rejected");
    cglue_reserve_vec::<u64>(v, n)
}
#[kani::proof]
#[kani::should_panic]
fn p_oob_insert_untouched_full() {
    let mut cv = stored::<2, 2>();
    cv.reserve_fn = oob_reserve;
    let i: usize = kani::any();
    kani::assume(i > 2);
    cv.insert(i, 1);
    kani::cover!(true, "MUST-NOT-REACH: insert returned for an out-of-range index");
}
#[kani::proof]
fn p_stored_drop() {
    let mut cv = stored::<2, 3>();
    let x: u64 = kani::any();
    cv.push(x);
    unsafe { assert!(REC_RESERVE == 0, "C11 no growth call when spare capacity suffices"); }
    let trip = (cv.data as usize, cv.len, cv.capacity);
    drop(cv);
    unsafe {
        assert!(REC_DROP == 1, "C11 drop calls the stored drop function exactly once");
        assert!(REC_DROP_ARGS == trip, "C11 drop passes the current (data,len,capacity)");
    }
    kani::cover!(true, "reaches end");
}
#[kani::proof]
fn p_stored_reserve_full() {
    let mut cv = stored::<2, 2>();
    let which: u8 = kani::any();
    let x: u64 = kani::any();
    match which {
        0 => cv.push(x),
        1 => { let i: usize = kani::any(); kani::assume(i <= 2); cv.insert(i, x) }
        _ => cv.reserve(1),
    }
    unsafe {
        assert!(REC_RESERVE == 1, "C11 growth goes through the stored reserve function exactly once");
        assert!(REC_RESERVE_N >= 1, "C11 reserve function is asked for at least the missing room");
        assert!(REC_DROP == 0);
    }
    assert!(cv.capacity() > 2 && cv.capacity() >= cv.len());
    drop(cv);
    unsafe { assert!(REC_DROP == 1, "C11 drop calls stored drop once"); }
    kani::cover!(which == 0, "push");
    kani::cover!(which == 1, "insert");
    kani::cover!(which > 1, "reserve");
}
#[kani::proof]
fn p_stored_reserve_spare() {
    let mut cv = stored::<1, 3>();
    cv.reserve(2);
    unsafe { assert!(REC_RESERVE == 0, "C11 reserve within spare capacity calls nothing"); }
    cv.reserve(3);
    unsafe { assert!(REC_RESERVE == 1 && REC_RESERVE_N >= 1, "C11 reserve beyond spare capacity goes through the stored function"); }
    assert!(cv.capacity() - cv.len() >= 3);
    drop(cv);
    kani::cover!(true, "reaches end");
}
#[kani::proof]
fn p_stored_clone_is_own_allocation() {
    // a clone is a NEW allocation made on this side: it carries the functions of ITS allocator and
    // never hands its buffer to the source's stored functions (nor the source's buffer to its own)
    let cv = stored::<2, 3>();
    let mut cl = cv.clone();
    assert!(cl.len() == 2 && cl[0] == cv[0] && cl[1] == cv[1] && cl.as_ptr() != cv.as_ptr(), "C11 clone has the same elements in its own buffer");
    let grow: bool = kani::any();
    if grow { cl.push(3); cl.push(4); cl.push(5); assert!(cl.len() == 5 && cl[4] == 5); }
    drop(cl);
    unsafe { assert!(REC_DROP == 0 && REC_RESERVE == 0, "C11 growing and dropping a clone never goes through the SOURCE's stored functions"); }
    let trip = (cv.data as usize, cv.len, cv.capacity);
    drop(cv);
    unsafe { assert!(REC_DROP == 1 && REC_DROP_ARGS == trip, "C11 the source is still released through its own stored function, once"); }
    kani::cover!(grow, "clone grown");
}
#[kani::proof]
fn p_stored_no_drop_fn() {
    // a husk without drop function must not free anything
    let (cv, _o) = state::<u64, 1, 1>();
    let cv = core::mem::ManuallyDrop::new(cv);
    let husk = CVec::<u64> { data: cv.data, len: cv.len, capacity: cv.capacity, drop_fn: None, reserve_fn: rec_reserve };
    drop(husk);
    unsafe { assert!(REC_DROP == 0) };
    // release the real allocation through the original
    drop(core::mem::ManuallyDrop::into_inner(cv));
    kani::cover!(true, "reaches end");
}

#[kani::proof]
fn canary_push() {
    let (mut cv, o) = state::<u64, 1, 1>();
    cv.push(3);
    assert!(cv.len() == o.len(), "canary: deliberately false");
}

// C16 — CBox / CSliceBox keep the published C layout: {instance, drop function}.
use super::{CBox, CSliceBox};
use core::mem::{align_of, size_of};
use crate::trait_group::Opaquable;
use std::boxed::Box;
use std::vec::Vec;

static mut DROPS: u32 = 0;
fn drops() -> u32 { unsafe { DROPS } }
struct D { v: u32, heap: Box<u32> }
impl D { fn new(v: u32) -> Self { D { v, heap: Box::new(!v) } } }
impl Drop for D { fn drop(&mut self) { assert!(*self.heap == !self.v); unsafe { DROPS += 1 } } }

/// the C declaration (from the property statement): struct CBox { T *instance; void (*drop)(T *); }
#[repr(C)]
struct BoxView<T> { instance: *mut T, drop: Option<unsafe extern "C" fn(*mut T)> }
#[repr(C)]
struct SliceView<T> { data: *mut T, len: usize }
#[repr(C)]
struct SliceBoxView<T> { instance: SliceView<T>, drop: Option<unsafe extern "C" fn(*mut SliceView<T>)> }

//@ prefix=p_cbox kind=property clause=CBox is {instance, drop function}: same size/alignment as the C view; releasing through view.drop(view.instance) drops the value exactly once and frees its memory
#[kani::proof]
fn p_cbox_view() {
    assert!(size_of::<CBox<D>>() == size_of::<BoxView<D>>() && align_of::<CBox<D>>() == align_of::<BoxView<D>>(), "C16 CBox has the size/alignment of {instance, drop}");
    let v: u32 = kani::any();
    let b: CBox<D> = CBox::from(D::new(v));
    let addr = &*b as *const D;
    let view: BoxView<D> = unsafe { core::mem::transmute_copy(&b) };
    core::mem::forget(b);
    assert!(view.instance as *const D == addr, "C16 first field is the instance pointer");
    assert!(unsafe { (*view.instance).v } == v, "C16 instance readable through the view");
    assert!(view.drop.is_some(), "C16 second field is the drop function");
    assert!(drops() == 0);
    unsafe { (view.drop.unwrap())(view.instance) };
    assert!(drops() == 1, "C16 view.drop(view.instance) releases the value exactly once");
    kani::cover!(true, "reaches end");
}
#[kani::proof]
fn p_cbox_view_u8() {
    let v: u8 = kani::any();
    let b: CBox<u8> = CBox::from(Box::new(v));
    let view: BoxView<u8> = unsafe { core::mem::transmute_copy(&b) };
    core::mem::forget(b);
    assert!(unsafe { *view.instance } == v, "C16 instance readable through the view");
    unsafe { (view.drop.unwrap())(view.instance) };
    kani::cover!(true, "reaches end");
}
//@ prefix=p_cslicebox kind=property clause=CSliceBox is {{data,len}, drop function}; releasing through the view drops every element once and frees the buffer
#[kani::proof]
#[kani::unwind(5)]
fn p_cslicebox_view() {
    assert!(size_of::<CSliceBox<D>>() == size_of::<SliceBoxView<D>>() && align_of::<CSliceBox<D>>() == align_of::<SliceBoxView<D>>(), "C16 CSliceBox layout");
    let n: usize = if kani::any() { 0 } else { 3 };
    let mut src: Vec<D> = Vec::new();
    let mut i = 0;
    while i < n { src.push(D::new(i as u32)); i += 1; }
    let bs: Box<[D]> = src.into_boxed_slice();
    let p = bs.as_ptr();
    let sb = CSliceBox::from(bs);
    assert!(sb.len() == n, "C16 CSliceBox derefs to the slice");
    let mut view: SliceBoxView<D> = unsafe { core::mem::transmute_copy(&sb) };
    core::mem::forget(sb);
    assert!(view.instance.data as *const D == p && view.instance.len == n, "C16 {data,len} describe the boxed slice");
    if n > 0 { assert!(unsafe { (*view.instance.data.add(2)).v } == 2, "C16 elements readable through the view"); }
    unsafe { (view.drop.unwrap())(&mut view.instance) };
    assert!(drops() as usize == n, "C16 releasing through the view drops every element exactly once");
    kani::cover!(n == 0, "empty");
    kani::cover!(n == 3, "non-empty");
}
struct Pz;
impl Drop for Pz { fn drop(&mut self) { unsafe { DROPS += 1 } } }
#[repr(align(64))]
struct Pal { v: u32, heap: Box<u8> }
impl Drop for Pal { fn drop(&mut self) { unsafe { DROPS += 1 } } }
fn view_class<T: Send>(mk: fn() -> T, counted: bool) {
    assert!(size_of::<CBox<T>>() == size_of::<BoxView<T>>(), "C16 CBox layout (any payload class)");
    let b: CBox<T> = CBox::from(mk());
    let view: BoxView<T> = unsafe { core::mem::transmute_copy(&b) };
    core::mem::forget(b);
    assert!(view.drop.is_some() && !view.instance.is_null() && (view.instance as usize) % align_of::<T>() == 0, "C16 instance pointer is a valid, aligned T*; drop function published (any payload class)");
    unsafe { (view.drop.unwrap())(view.instance) };
    assert!(drops() == counted as u32, "C16 view.drop(view.instance) releases the value exactly once (any payload class)");
}
#[kani::proof] fn p_cbox_view_class_zst_drop() { view_class::<Pz>(|| Pz, true); kani::cover!(true, "end"); }
#[kani::proof] fn p_cbox_view_class_aligned() { view_class::<Pal>(|| Pal { v: 1, heap: Box::new(1) }, true); kani::cover!(true, "end"); }
#[kani::proof] fn p_cbox_view_class_plain() { view_class::<[u64; 24]>(|| [5; 24], false); kani::cover!(true, "end"); }
static mut FOREIGN_BOX_DROPS: u32 = 0;
static mut FOREIGN_BOX_ARG: usize = 0;
unsafe extern "C" fn foreign_box_drop(p: *mut u64) { FOREIGN_BOX_DROPS += 1; FOREIGN_BOX_ARG = p as usize; }
#[kani::proof]
fn p_cbox_foreign_built() {
    // a box BUILT BY A C CALLER: Rust reads through instance and releases through the published function, once
    let mut storage: u64 = kani::any();
    let v0 = storage;
    let view = BoxView::<u64> { instance: &mut storage, drop: Some(foreign_box_drop) };
    let b: CBox<u64> = unsafe { core::mem::transmute_copy(&view) };
    assert!(*b == v0, "C16 a box built from the published fields reads its instance");
    let o = b.into_opaque();
    drop(o);
    unsafe { assert!(FOREIGN_BOX_DROPS == 1 && FOREIGN_BOX_ARG == &storage as *const u64 as usize, "C16 dropping it calls the published drop function once with the instance") };
    kani::cover!(true, "end");
}
//@ prefix=canary kind=canary clause=vacuity canary
#[kani::proof]
fn canary_cbox() {
    let b: CBox<D> = CBox::from(D::new(1));
    let view: BoxView<D> = unsafe { core::mem::transmute_copy(&b) };
    assert!(view.drop.is_none(), "canary: deliberately false");
}

// C16 — CBox / CSliceBox keep the published C layout: {instance, drop function}.
use super::{CBox, CSliceBox};
use core::mem::{align_of, size_of};
use std::boxed::Box;
use std::vec::Vec;

static mut DROPS: u32 = 0;
fn drops() -> u32 { unsafe { DROPS } }
struct D { v: u32, heap: Box<u32> }
impl D { fn new(v: u32) -> Self { D { v, heap: Box::new(!v) } } }
impl Drop for D { fn drop(&mut self) { assert!(*self.heap == !self.v); unsafe { DROPS += 1 } } }

/// the C declaration (from the property statement): struct CBox { T *instance; void (*drop)(T *); }
#[repr(C)]
struct BoxView<T> { instance: *mut T, drop: Option<unsafe extern "C" fn(*mut T)> }
#[repr(C)]
struct SliceView<T> { data: *mut T, len: usize }
#[repr(C)]
struct SliceBoxView<T> { instance: SliceView<T>, drop: Option<unsafe extern "C" fn(*mut SliceView<T>)> }

//@ prefix=p_cbox kind=property clause=CBox is {instance, drop function}: same size/alignment as the C view; releasing through view.drop(view.instance) drops the value exactly once and frees its memory
#[kani::proof]
fn p_cbox_view() {
    assert!(size_of::<CBox<D>>() == size_of::<BoxView<D>>() && align_of::<CBox<D>>() == align_of::<BoxView<D>>(), "C16 CBox has the size/alignment of {instance, drop}");
    let v: u32 = kani::any();
    let b: CBox<D> = CBox::from(D::new(v));
    let addr = &*b as *const D;
    let view: BoxView<D> = unsafe { core::mem::transmute_copy(&b) };
    core::mem::forget(b);
    assert!(view.instance as *const D == addr, "C16 first field is the instance pointer");
    assert!(unsafe { (*view.instance).v } == v, "C16 instance readable through the view");
    assert!(view.drop.is_some(), "C16 second field is the drop function");
    assert!(drops() == 0);
    unsafe { (view.drop.unwrap())(view.instance) };
    assert!(drops() == 1, "C16 view.drop(view.instance) releases the value exactly once");
    kani::cover!(true, "reaches end");
}
#[kani::proof]
fn p_cbox_view_u8() {
    let v: u8 = kani::any();
    let b: CBox<u8> = CBox::from(Box::new(v));
    let view: BoxView<u8> = unsafe { core::mem::transmute_copy(&b) };
    core::mem::forget(b);
    assert!(unsafe { *view.instance } == v, "C16 instance readable through the view");
    unsafe { (view.drop.unwrap())(view.instance) };
    kani::cover!(true, "reaches end");
}
//@ prefix=p_cslicebox kind=property clause=CSliceBox is {{data,len}, drop function}; releasing through the view drops every element once and frees the buffer
#[kani::proof]
#[kani::unwind(5)]
fn p_cslicebox_view() {
    assert!(size_of::<CSliceBox<D>>() == size_of::<SliceBoxView<D>>() && align_of::<CSliceBox<D>>() == align_of::<SliceBoxView<D>>(), "C16 CSliceBox layout");
    let n: usize = if kani::any() { 0 } else { 3 };
    let mut src: Vec<D> = Vec::new();
    let mut i = 0;
    while i < n { src.push(D::new(i as u32)); i += 1; }
    let bs: Box<[D]> = src.into_boxed_slice();
    let p = bs.as_ptr();
    let sb = CSliceBox::from(bs);
    assert!(sb.len() == n, "C16 CSliceBox derefs to the slice");
    let mut view: SliceBoxView<D> = unsafe { core::mem::transmute_copy(&sb) };
    core::mem::forget(sb);
    assert!(view.instance.data as *const D == p && view.instance.len == n, "C16 {data,len} describe the boxed slice");
    if n > 0 { assert!(unsafe { (*view.instance.data.add(2)).v } == 2, "C16 elements readable through the view"); }
    unsafe { (view.drop.unwrap())(&mut view.instance) };
    assert!(drops() as usize == n, "C16 releasing through the view drops every element exactly once");
    kani::cover!(n == 0, "empty");
    kani::cover!(n == 3, "non-empty");
}
//@ prefix=canary kind=canary clause=vacuity canary
#[kani::proof]
fn canary_cbox() {
    let b: CBox<D> = CBox::from(D::new(1));
    let view: BoxView<D> = unsafe { core::mem::transmute_copy(&b) };
    assert!(view.drop.is_none(), "canary: deliberately false");
}

// C16 — slices are {data, length}.
use super::{CSliceMut, CSliceRef};
use core::mem::{align_of, size_of};
#[repr(C)]
struct SliceView<T> { data: *const T, len: usize }
#[derive(Clone, Copy, PartialEq, kani::Arbitrary)]
#[repr(C)]
struct B3([u8; 3]);
fn check<T: Copy + PartialEq + kani::Arbitrary>() {
    assert!(size_of::<CSliceRef<T>>() == size_of::<SliceView<T>>() && align_of::<CSliceRef<T>>() == align_of::<SliceView<T>>(), "C16 CSliceRef layout");
    assert!(size_of::<CSliceMut<T>>() == size_of::<SliceView<T>>() && align_of::<CSliceMut<T>>() == align_of::<SliceView<T>>(), "C16 CSliceMut layout");
    let mut arr: [T; 4] = kani::any();
    let off: usize = kani::any();
    let len: usize = kani::any();
    kani::assume(off <= 4 && len <= 4 - off);
    let (p, copy) = (arr[off..].as_ptr(), arr);
    let r = CSliceRef::from(&arr[off..off + len]);
    let v: SliceView<T> = unsafe { core::mem::transmute_copy(&r) };
    assert!(v.data == p && v.len == len, "C16 CSliceRef is {data, length}");
    if len > 0 { let i: usize = kani::any(); kani::assume(i < len); assert!(unsafe { *v.data.add(i) } == copy[off + i], "C16 elements readable through the view"); }
    let m = CSliceMut::from(&mut arr[off..off + len]);
    let v: SliceView<T> = unsafe { core::mem::transmute_copy(&m) };
    assert!(v.data == p && v.len == len, "C16 CSliceMut is {data, length}");
    // a view built by a C caller is usable as the Rust type
    let back: CSliceRef<T> = unsafe { core::mem::transmute_copy(&SliceView::<T> { data: p, len }) };
    assert!(back.as_ptr() == p && back.len() == len, "C16 a {data,length} pair built by the caller reads back as the slice");
    kani::cover!(len == 0, "empty");
    kani::cover!(len == 4, "full");
}
//@ prefix=p_slice kind=property clause=CSliceRef/CSliceMut are {data, length} for element types of different size/alignment
#[kani::proof] fn p_slice_u8() { check::<u8>(); }
#[kani::proof] fn p_slice_u64() { check::<u64>(); }
#[kani::proof] fn p_slice_b3() { check::<B3>(); }

// C16 — option tags: None=0, Some=1, payload after the tag at its natural alignment.
use super::COption;
use core::mem::{align_of, size_of, MaybeUninit};
#[repr(C)]
struct OptView<T> { tag: u32, payload: MaybeUninit<T> }
#[derive(Clone, Copy, PartialEq, kani::Arbitrary)]
#[repr(C)]
struct B3([u8; 3]);
fn check<T: Copy + PartialEq + kani::Arbitrary>() {
    assert!(size_of::<COption<T>>() == size_of::<OptView<T>>() && align_of::<COption<T>>() == align_of::<OptView<T>>(), "C16 COption has the layout of {int tag; T payload}");
    let x: T = kani::any();
    // fields are read at the C view's offsets (Kani's object for a repr(C) enum carries no tail
    // padding, so the value is not copied wholesale)
    let off = core::mem::offset_of!(OptView<T>, payload);
    let s = COption::Some(x);
    let p = &s as *const COption<T> as *const u8;
    assert!(unsafe { *(p as *const u32) } == 1, "C16 Some is tag 1");
    assert!(unsafe { *(p.add(off) as *const T) } == x, "C16 payload follows the tag at its natural alignment");
    let n: COption<T> = COption::None;
    assert!(unsafe { *(&n as *const COption<T> as *const u32) } == 0, "C16 None is tag 0");
    // a value built by a C caller
    let built = OptView::<T> { tag: 1, payload: MaybeUninit::new(x) };
    let back: COption<T> = unsafe { core::mem::transmute_copy(&built) };
    assert!(back.is_some() && back.unwrap() == x, "C16 {1, payload} built by the caller is Some(payload)");
    let built0 = OptView::<T> { tag: 0, payload: MaybeUninit::new(x) };
    let back0: COption<T> = unsafe { core::mem::transmute_copy(&built0) };
    assert!(!back0.is_some(), "C16 {0, _} built by the caller is None");
}
//@ prefix=p_copt kind=property clause=COption tag values None=0/Some=1 and payload placement, for payloads of different size/alignment
#[kani::proof] fn p_copt_u8() { check::<u8>(); kani::cover!(true, "end"); }
#[kani::proof] fn p_copt_u64() { check::<u64>(); kani::cover!(true, "end"); }
#[kani::proof] fn p_copt_b3() { check::<B3>(); kani::cover!(true, "end"); }

// C16 — result tags: Ok=0, Err=1.
use super::CResult;
use core::mem::{align_of, size_of, MaybeUninit};
#[repr(C)]
union Payload<T: Copy, E: Copy> { ok: T, err: E }
#[repr(C)]
struct ResView<T: Copy, E: Copy> { tag: u32, payload: Payload<T, E> }
fn check<T: Copy + PartialEq + kani::Arbitrary, E: Copy + PartialEq + kani::Arbitrary>() {
    assert!(size_of::<CResult<T, E>>() == size_of::<ResView<T, E>>() && align_of::<CResult<T, E>>() == align_of::<ResView<T, E>>(), "C16 CResult has the layout of {int tag; union {T ok; E err;}}");
    let (t, e): (T, E) = kani::any();
    let ok: CResult<T, E> = CResult::Ok(t);
    let v: ResView<T, E> = unsafe { core::mem::transmute_copy(&ok) };
    assert!(v.tag == 0 && unsafe { v.payload.ok } == t, "C16 Ok is tag 0 with the payload in the union");
    let er: CResult<T, E> = CResult::Err(e);
    let v: ResView<T, E> = unsafe { core::mem::transmute_copy(&er) };
    assert!(v.tag == 1 && unsafe { v.payload.err } == e, "C16 Err is tag 1 with the payload in the union");
    let built = ResView::<T, E> { tag: 1, payload: Payload { err: e } };
    let back: CResult<T, E> = unsafe { core::mem::transmute_copy(&built) };
    assert!(back.is_err(), "C16 {1, err} built by the caller is Err");
    let _ = MaybeUninit::<u8>::uninit();
}
//@ prefix=p_cres kind=property clause=CResult tag values Ok=0/Err=1 and payload placement
#[kani::proof] fn p_cres_u64_u8() { check::<u64, u8>(); kani::cover!(true, "end"); }
#[kani::proof] fn p_cres_u8_u64() { check::<u8, u64>(); kani::cover!(true, "end"); }
#[kani::proof] fn p_cres_u32_i32() { check::<u32, i32>(); kani::cover!(true, "end"); }

// C16 — iterators are {state, next function returning 0 for an item}.
use super::CIterator;
use crate::trait_group::c_void;
use core::mem::{align_of, size_of, MaybeUninit};
#[repr(C)]
struct ItView<T> { iter: *mut c_void, func: extern "C" fn(*mut c_void, *mut T) -> i32 }
//@ prefix=p_citer kind=property clause=CIterator is {state, next function}: view.func(view.iter, &out) returns 0 and fills out for each item, non-zero at the end
#[kani::proof]
fn p_citer_view() {
    assert!(size_of::<CIterator<u64>>() == size_of::<ItView<u64>>() && align_of::<CIterator<u64>>() == align_of::<ItView<u64>>(), "C16 CIterator layout");
    let (a, b): (u64, u64) = kani::any();
    let arr = [a, b];
    let mut src = arr.iter().copied();
    let sp = &mut src as *mut _ as usize;
    let it = CIterator::new(&mut src);
    let view: ItView<u64> = unsafe { core::mem::transmute_copy(&it) };
    core::mem::forget(it);
    assert!(view.iter as usize == sp, "C16 first field is the iterator state");
    let mut out = MaybeUninit::<u64>::new(7);
    assert!((view.func)(view.iter, out.as_mut_ptr()) == 0 && unsafe { out.assume_init() } == a, "C16 0 + first item");
    assert!((view.func)(view.iter, out.as_mut_ptr()) == 0 && unsafe { out.assume_init() } == b, "C16 0 + second item");
    assert!((view.func)(view.iter, out.as_mut_ptr()) != 0, "C16 non-zero at the end");
    assert!(unsafe { out.assume_init() } == b, "C16 slot untouched at the end");
    kani::cover!(true, "reaches end");
}

static mut DROPS: u32 = 0;
struct D { v: u32, heap: std::boxed::Box<u32> }
impl Drop for D { fn drop(&mut self) { assert!(*self.heap == !self.v, "C16 dropped item is a real item"); unsafe { DROPS += 1 } } }
#[kani::proof]
#[kani::unwind(4)]
fn p_citer_view_owned_items() {
    // a C caller hands the next function an UNINITIALISED out slot; for items with a destructor the
    // function must only write it
    let v: u32 = kani::any();
    let mut src = Some(D { v, heap: std::boxed::Box::new(!v) }).into_iter();
    let it = CIterator::new(&mut src);
    let view: ItView<D> = unsafe { core::mem::transmute_copy(&it) };
    core::mem::forget(it);
    let mut out = MaybeUninit::<D>::uninit();
    assert!((view.func)(view.iter, out.as_mut_ptr()) == 0, "C16 0 for an item");
    assert!(unsafe { DROPS } == 0, "C16 nothing is dropped when the item is stored into the caller's slot");
    let d = unsafe { out.assume_init() };
    assert!(d.v == v && *d.heap == !v, "C16 the slot holds the item");
    drop(d);
    let mut out2 = MaybeUninit::<D>::uninit();
    assert!((view.func)(view.iter, out2.as_mut_ptr()) != 0, "C16 non-zero at the end");
    assert!(unsafe { DROPS } == 1, "C16 the item was dropped exactly once, by the caller");
    kani::cover!(true, "reaches end");
}

extern "C" fn c_iter_next(state: *mut c_void, out: *mut u64) -> i32 {
    // a C-implemented iterator over a countdown: 0 + item while state > 0, afterwards a NEGATIVE code
    let st = state as *mut u64;
    unsafe { if *st == 0 { -1 } else { *st -= 1; *out = *st; 0 } }
}
#[kani::proof]
#[kani::unwind(5)]
fn p_citer_foreign_built() {
    // an iterator BUILT BY A C CALLER from the published fields: any non-zero code (also a negative one) ends it
    let n: u64 = kani::any();
    kani::assume(n <= 2);
    let mut state = n;
    let view = ItView::<u64> { iter: &mut state as *mut u64 as *mut c_void, func: c_iter_next };
    let mut it: CIterator<u64> = unsafe { core::mem::transmute_copy(&view) };
    let mut got = 0u64;
    let mut k = 0;
    while k < 3 { if let Some(v) = it.next() { assert!(v == n - 1 - got, "C16 items come out as produced"); got += 1; } k += 1; }
    assert!(got == n, "C16 exactly the items for which the function returned 0; a negative code ends the iteration");
    assert!(it.next().is_none(), "C16 stays ended");
    kani::cover!(n == 2, "two items");
}

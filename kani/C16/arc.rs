// C16 — CArc / CArcSome are {instance, clone function, drop function}.
use super::{CArc, CArcSome};
use core::mem::{align_of, size_of};
use std::sync::Arc;

/// C declaration: struct CArc { const T *instance; const T *(*clone)(const T *); void (*drop)(const T *); }
/// (function arguments are spelled Option<&T>, the ABI-identical nullable pointer, because CBMC
/// resolves indirect calls by exact signature)
#[repr(C)]
struct ArcView<T: 'static> {
    instance: *const T,
    clone: Option<unsafe extern "C" fn(Option<&'static T>) -> Option<&'static T>>,
    drop: Option<unsafe extern "C" fn(Option<&T>)>,
}
fn opt<T>(p: *const T) -> Option<&'static T> { unsafe { p.as_ref() } }
fn raw<T>(o: Option<&T>) -> *const T { o.map(|r| r as *const T).unwrap_or(core::ptr::null()) }
//@ prefix=p_carc kind=property clause=CArc/CArcSome are {instance, clone, drop}: view.clone(instance) adds one strong count and returns the instance; view.drop(instance) releases one; an empty CArc is all-null
#[kani::proof]
fn p_carc_view() {
    assert!(size_of::<CArc<u64>>() == size_of::<ArcView<u64>>() && align_of::<CArc<u64>>() == align_of::<ArcView<u64>>(), "C16 CArc layout");
    assert!(size_of::<CArcSome<u64>>() == size_of::<ArcView<u64>>(), "C16 CArcSome layout");
    let v: u64 = kani::any();
    let arc = Arc::new(v);
    let keep = arc.clone();
    let some: bool = kani::any();
    let view: ArcView<u64> = if some {
        let c = CArcSome::<u64>::from(arc);
        let w = unsafe { core::mem::transmute_copy(&c) };
        core::mem::forget(c);
        w
    } else {
        let c = CArc::<u64>::from(arc);
        let w = unsafe { core::mem::transmute_copy(&c) };
        core::mem::forget(c);
        w
    };
    assert!(view.instance == Arc::as_ptr(&keep), "C16 first field is the instance pointer");
    assert!(unsafe { *view.instance } == v, "C16 instance readable through the view");
    let (clone, drop_fn) = (view.clone.unwrap(), view.drop.unwrap());
    let p2 = raw(unsafe { clone(opt(view.instance)) });
    assert!(p2 == view.instance, "C16 view.clone returns the shared instance");
    assert!(Arc::strong_count(&keep) == 3, "C16 view.clone adds exactly one strong count");
    unsafe { drop_fn(opt(p2)) };
    assert!(Arc::strong_count(&keep) == 2, "C16 view.drop releases exactly one strong count");
    unsafe { drop_fn(opt(view.instance)) };
    assert!(Arc::strong_count(&keep) == 1, "C16 view.drop releases the handle's own count");
    let e: CArc<u64> = CArc::default();
    let ev: ArcView<u64> = unsafe { core::mem::transmute_copy(&e) };
    assert!(ev.instance.is_null() && ev.clone.is_none() && ev.drop.is_none(), "C16 empty CArc is all-null");
    kani::cover!(some, "CArcSome");
    kani::cover!(!some, "CArc");
}
static H1: u64 = 1;
static H2: u64 = 2;
static mut FOREIGN_DROPS: [u32; 2] = [0, 0];
unsafe extern "C" fn foreign_clone(p: Option<&'static u64>) -> Option<&'static u64> { assert!(core::ptr::eq(p.unwrap(), &H1)); Some(&H2) }
unsafe extern "C" fn foreign_drop(p: Option<&u64>) { if core::ptr::eq(p.unwrap(), &H1) { FOREIGN_DROPS[0] += 1 } else { FOREIGN_DROPS[1] += 1 } }
#[kani::proof]
fn p_carc_foreign_built() {
    // an arc BUILT BY A C CALLER from the published fields: Rust's clone/drop go through those functions
    // and a clone carries the handle the foreign clone function returned
    let view = ArcView::<u64> { instance: &H1, clone: Some(foreign_clone), drop: Some(foreign_drop) };
    let a: CArcSome<u64> = unsafe { core::mem::transmute_copy(&view) };
    let b = a.clone();
    let vb: ArcView<u64> = unsafe { core::mem::transmute_copy(&b) };
    assert!(vb.instance == &H2 as *const u64 && *b == 2, "C16 the clone carries the instance returned by the published clone function");
    drop(b);
    unsafe { assert!(FOREIGN_DROPS == [0, 1], "C16 dropping the clone calls the published drop function with the clone's instance") };
    drop(a);
    unsafe { assert!(FOREIGN_DROPS == [1, 1], "C16 dropping the original calls the published drop function with its own instance") };
    kani::cover!(true, "end");
}
//@ prefix=canary kind=canary clause=vacuity canary
#[kani::proof]
fn canary_carc() {
    let c = CArc::<u64>::from(5u64);
    let view: ArcView<u64> = unsafe { core::mem::transmute_copy(&c) };
    assert!(view.clone.is_none(), "canary: deliberately false");
}

// C16 — CVec is {data, length, capacity, drop function, reserve function}.
use super::CVec;
use core::mem::{align_of, size_of};
use std::boxed::Box;
use std::vec::Vec;

static mut DROPS: u32 = 0;
fn drops() -> u32 { unsafe { DROPS } }
struct D { v: u32, heap: Box<u32> }
impl D { fn new(v: u32) -> Self { D { v, heap: Box::new(!v) } } }
impl Drop for D { fn drop(&mut self) { assert!(*self.heap == !self.v); unsafe { DROPS += 1 } } }

#[repr(C)]
struct VecView<T> {
    data: *mut T,
    len: usize,
    capacity: usize,
    drop: Option<unsafe extern "C" fn(*mut T, usize, usize)>,
    reserve: extern "C" fn(*mut VecView<T>, usize) -> usize,
}
//@ prefix=p_cvec kind=property clause=CVec is {data, length, capacity, drop, reserve}: a C caller can read elements, grow via view.reserve(&view, n), append in place and release via view.drop(data,len,capacity) with the same effect as the Rust operations
#[kani::proof]
#[kani::unwind(5)]
fn p_cvec_view_grow() {
    assert!(size_of::<CVec<D>>() == size_of::<VecView<D>>() && align_of::<CVec<D>>() == align_of::<VecView<D>>(), "C16 CVec layout");
    let mut v: Vec<D> = Vec::with_capacity(2);
    v.push(D::new(10));
    v.push(D::new(11));
    let (p, cap) = (v.as_mut_ptr(), v.capacity());
    let cv = CVec::from(v);
    let mut view: VecView<D> = unsafe { core::mem::transmute_copy(&cv) };
    core::mem::forget(cv);
    assert!(view.data == p && view.len == 2 && view.capacity == cap, "C16 first three fields are data, length, capacity");
    assert!(unsafe { (*view.data.add(1)).v } == 11, "C16 elements readable through the view");
    // grow through the stored function, as the C++ wrapper does
    let newcap = (view.reserve)(&mut view, 1);
    assert!(view.capacity - view.len >= 1 && newcap == view.capacity, "C16 view.reserve makes room and returns the capacity");
    assert!(unsafe { (*view.data).v } == 10 && unsafe { (*view.data.add(1)).v } == 11, "C16 contents preserved by growing");
    unsafe { core::ptr::write(view.data.add(view.len), D::new(12)) };
    view.len += 1;
    // hand it back to Rust: it is an ordinary CVec
    let back: CVec<D> = unsafe { core::mem::transmute_copy(&view) };
    assert!(back.len() == 3 && back[2].v == 12 && back[0].v == 10, "C16 the caller-driven vector reads back in Rust");
    core::mem::forget(back);
    assert!(drops() == 0);
    unsafe { (view.drop.unwrap())(view.data, view.len, view.capacity) };
    assert!(drops() == 3, "C16 view.drop(data,len,capacity) drops every element once and frees the buffer");
    kani::cover!(true, "reaches end");
}
#[kani::proof]
#[kani::unwind(6)]
fn p_cvec_view_reserve_partial() {
    // a C caller growing a PARTIALLY filled vector by more than one element through the stored function
    let mut v: Vec<u64> = Vec::with_capacity(3);   // spare capacity 2, smaller than the 3 requested
    v.push(kani::any());
    let first = v[0];
    let cv = CVec::from(v);
    let mut view: VecView<u64> = unsafe { core::mem::transmute_copy(&cv) };
    core::mem::forget(cv);
    assert!(view.len == 1 && view.capacity == 3);
    let newcap = (view.reserve)(&mut view, 3);
    assert!(view.capacity - view.len >= 3 && newcap == view.capacity, "C16 view.reserve(&view, n) leaves room for n more elements and returns the capacity");
    let mut i = 0;
    while i < 3 { unsafe { core::ptr::write(view.data.add(view.len), 100 + i as u64) }; view.len += 1; i += 1; }
    assert!(unsafe { *view.data } == first && unsafe { *view.data.add(3) } == 102, "C16 contents preserved, appended elements in place");
    unsafe { (view.drop.unwrap())(view.data, view.len, view.capacity) };
    kani::cover!(true, "reaches end");
}
#[kani::proof]
#[kani::unwind(4)]
fn p_cvec_view_emptied_release() {
    // a vector the C caller has emptied still owns its buffer: view.drop(data, 0, capacity) frees it
    let mut v: Vec<u64> = Vec::with_capacity(4);
    v.push(kani::any());
    let cv = CVec::from(v);
    let mut view: VecView<u64> = unsafe { core::mem::transmute_copy(&cv) };
    core::mem::forget(cv);
    view.len -= 1; // the caller consumed the element
    assert!(view.len == 0 && view.capacity == 4);
    unsafe { (view.drop.unwrap())(view.data, view.len, view.capacity) };
    kani::cover!(true, "reaches end"); // the harness-end leak obligation checks the buffer is gone
}
#[kani::proof]
fn p_cvec_view_u8() {
    let x: u8 = kani::any();
    let mut v: Vec<u8> = Vec::with_capacity(3);
    v.push(x);
    let cv = CVec::from(v);
    let view: VecView<u8> = unsafe { core::mem::transmute_copy(&cv) };
    core::mem::forget(cv);
    assert!(view.len == 1 && view.capacity == 3 && unsafe { *view.data } == x, "C16 CVec<u8> view");
    unsafe { (view.drop.unwrap())(view.data, view.len, view.capacity) };
    kani::cover!(true, "reaches end");
}
static mut F_RESERVE: u32 = 0;
static mut F_DROP: (u32, usize, usize, usize) = (0, 0, 0, 0);
static mut F_BUF: [u64; 8] = [0; 8];
extern "C" fn foreign_reserve(v: *mut VecView<u64>, n: usize) -> usize {
    // a C-side vector backed by a fixed arena of 8 slots
    unsafe { F_RESERVE += 1; assert!((*v).len + n <= 8); (*v).capacity = 8; (*v).capacity }
}
unsafe extern "C" fn foreign_vec_drop(d: *mut u64, l: usize, c: usize) { F_DROP = (F_DROP.0 + 1, d as usize, l, c); }
#[kani::proof]
#[kani::unwind(6)]
fn p_cvec_foreign_built() {
    // a vector BUILT BY A C CALLER: Rust's push/insert/pop/drop drive it only through the published fields and functions
    let (a, b, c): (u64, u64, u64) = kani::any();
    let view = VecView::<u64> { data: unsafe { F_BUF.as_mut_ptr() }, len: 0, capacity: 1, drop: Some(foreign_vec_drop), reserve: foreign_reserve };
    let mut cv: CVec<u64> = unsafe { core::mem::transmute_copy(&view) };
    cv.push(a);
    unsafe { assert!(F_RESERVE == 0, "C16 no growth call while the published capacity suffices") };
    cv.push(b);
    unsafe { assert!(F_RESERVE == 1, "C16 growth goes through the published reserve function") };
    cv.insert(1, c);
    assert!(cv.len() == 3 && cv[0] == a && cv[1] == c && cv[2] == b && cv.capacity() == 8, "C16 Rust operations work on the caller's buffer and see the capacity the reserve function published");
    unsafe { assert!(F_BUF[0] == a && F_BUF[1] == c && F_BUF[2] == b, "C16 the elements live in the caller's buffer") };
    assert!(cv.pop() == Some(b));
    {
        // a clone is allocated by Rust: it must carry the functions of ITS allocator, never the caller's
        let cl = cv.clone();
        assert!(cl.len() == 2 && cl[0] == a && cl[1] == c && cl.as_ptr() as usize != cv.as_ptr() as usize, "C16 a clone of a caller-built vector has the same elements in its own buffer");
        let mut tgt: CVec<u64> = CVec::from(std::vec![1u64, 2, 3, 4]);
        tgt.clone_from(&cv);
        let tv: VecView<u64> = unsafe { core::mem::transmute_copy(&tgt) };
        assert!(tv.len == 2 && unsafe { *tv.data } == a && unsafe { *tv.data.add(1) } == c && tv.capacity >= 2, "C16 after clone_from a C caller reads the source's length and elements through the fields");
        drop(cl);
        drop(tgt);
        unsafe { assert!(F_DROP.0 == 0 && F_RESERVE == 1, "C16 buffers allocated by Rust are never handed to the caller's functions") };
    }
    let data = cv.as_ptr() as usize;
    drop(cv);
    unsafe { assert!(F_DROP == (1, data, 2, 8), "C16 drop calls the published drop function once with (data, len, capacity)") };
    kani::cover!(true, "end");
}
//@ prefix=canary kind=canary clause=vacuity canary
#[kani::proof]
fn canary_cvec() {
    let cv = CVec::from(Vec::<u8>::with_capacity(2));
    let view: VecView<u8> = unsafe { core::mem::transmute_copy(&cv) };
    assert!(view.capacity == 0, "canary: deliberately false");
}

// C16 — callbacks are {context, function}.
use super::OpaqueCallback;
use crate::trait_group::c_void;
use core::mem::{align_of, size_of};
#[repr(C)]
struct CbView<T> { context: *mut c_void, func: extern "C" fn(*mut c_void, T) -> bool }
//@ prefix=p_callback kind=property clause=OpaqueCallback is {context, function}: view.func(view.context, x) has the effect of call(x)
#[kani::proof]
fn p_callback_view() {
    assert!(size_of::<OpaqueCallback<u32>>() == size_of::<CbView<u32>>() && align_of::<OpaqueCallback<u32>>() == align_of::<CbView<u32>>(), "C16 OpaqueCallback layout");
    let (x, limit): (u32, u32) = kani::any();
    let mut count = 0u32;
    let mut last = 0u32;
    let mut f = |v: u32| { count += 1; last = v; v < limit };
    let fp = &mut f as *mut _ as usize;
    let cb: OpaqueCallback<u32> = (&mut f).into();
    let view: CbView<u32> = unsafe { core::mem::transmute_copy(&cb) };
    core::mem::forget(cb);
    assert!(view.context as usize == fp, "C16 first field is the context pointer");
    let r = (view.func)(view.context, x);
    assert!(count == 1 && last == x && r == (x < limit), "C16 view.func(view.context, x) invokes the closure once with x and returns its answer");
    kani::cover!(r, "continue");
    kani::cover!(!r, "stop");
}

static mut F_SEEN: (u32, usize, u32) = (0, 0, 0);
extern "C" fn foreign_cb(ctx: *mut c_void, x: u32) -> bool { unsafe { F_SEEN = (F_SEEN.0 + 1, ctx as usize, x); } x % 2 == 0 }
#[kani::proof]
fn p_callback_foreign_built() {
    // a callback BUILT BY A C CALLER: call() invokes the published function once with the published context
    let mut ctx: u64 = 0;
    let x: u32 = kani::any();
    let view = CbView::<u32> { context: &mut ctx as *mut u64 as *mut c_void, func: foreign_cb };
    let mut cb: OpaqueCallback<u32> = unsafe { core::mem::transmute_copy(&view) };
    let r = cb.call(x);
    unsafe { assert!(F_SEEN == (1, &ctx as *const u64 as usize, x) && r == (x % 2 == 0), "C16 call() reaches the published function with the published context and returns its answer") };
    kani::cover!(true, "end");
}

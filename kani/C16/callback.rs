// C16 — callbacks are {context, function}.
use super::OpaqueCallback;
use crate::trait_group::c_void;
use core::mem::{align_of, size_of};
#[repr(C)]
struct CbView<T> { context: *mut c_void, func: extern "C" fn(*mut c_void, T) -> bool }
//@ prefix=p_callback kind=property clause=OpaqueCallback is {context, function}: view.func(view.context, x) has the effect of call(x)
#[kani::proof]
fn p_callback_view() {
    assert!(size_of::<OpaqueCallback<u32>>() == size_of::<CbView<u32>>() && align_of::<OpaqueCallback<u32>>() == align_of::<CbView<u32>>(), "C16 OpaqueCallback layout");
    let (x, limit): (u32, u32) = kani::any();
    let mut count = 0u32;
    let mut last = 0u32;
    let mut f = |v: u32| { count += 1; last = v; v < limit };
    let fp = &mut f as *mut _ as usize;
    let cb: OpaqueCallback<u32> = (&mut f).into();
    let view: CbView<u32> = unsafe { core::mem::transmute_copy(&cb) };
    core::mem::forget(cb);
    assert!(view.context as usize == fp, "C16 first field is the context pointer");
    let r = (view.func)(view.context, x);
    assert!(count == 1 && last == x && r == (x < limit), "C16 view.func(view.context, x) invokes the closure once with x and returns its answer");
    kani::cover!(r, "continue");
    kani::cover!(!r, "stop");
}

// C19 — a waker crossing the boundary wakes the original and is released once.
// Ghost state: strong count and wake count of a counting Arc<impl Wake> original.
use super::*;
use core::task::Waker;
use std::sync::Arc;
use std::task::Wake;

static mut WAKES: u32 = 0;
static mut ORIG_DROPPED: u32 = 0;
fn wakes() -> u32 { unsafe { WAKES } }
struct Orig { magic: u32 }
impl Wake for Orig {
    fn wake(self: Arc<Self>) { assert!(self.magic == 0x19 && unsafe { ORIG_DROPPED } == 0, "C19 the original is alive and intact when woken"); unsafe { WAKES += 1 } }
    fn wake_by_ref(self: &Arc<Self>) { assert!(self.magic == 0x19 && unsafe { ORIG_DROPPED } == 0, "C19 the original is alive and intact when woken"); unsafe { WAKES += 1 } }
}
impl Drop for Orig { fn drop(&mut self) { unsafe { ORIG_DROPPED += 1 } } }

fn setup() -> (Arc<Orig>, Waker) {
    let keep = Arc::new(Orig { magic: 0x19 });
    let waker = Waker::from(keep.clone());
    assert!(Arc::strong_count(&keep) == 2);
    (keep, waker)
}
fn count(k: &Arc<Orig>) -> usize { Arc::strong_count(k) }

//@ prefix=p_ref kind=property clause=the borrowed view handed to the foreign side: wake_by_ref wakes the original once and takes no clone; dropping the view releases nothing
#[kani::proof]
#[kani::unwind(3)]
fn p_ref_view() {
    let (keep, waker) = setup();
    let c = CRefWaker::from(&waker);
    c.with_waker(|w| {
        w.wake_by_ref();
        assert!(wakes() == 1, "C19 wake_by_ref on the borrowed view wakes the original once");
        w.wake_by_ref();
        assert!(wakes() == 2, "C19 once per wake");
        assert!(count(&keep) == 2, "C19 the borrowed view takes no clone of the original");
    });
    assert!(count(&keep) == 2, "C19 leaving the poll releases nothing");
    drop(waker);
    assert!(count(&keep) == 1 && unsafe { ORIG_DROPPED } == 0);
}
//@ prefix=p_owned kind=property clause=owned foreign-side wakers: clone takes clones of the original that are each released exactly once however the wakers are cloned, woken (by value / by reference) and dropped; each wake wakes the original once; when all are gone the original's count is back to its value at poll entry
#[kani::proof]
#[kani::unwind(3)]
fn p_owned_clone_wake() {
    let (keep, waker) = setup();
    let c = CRefWaker::from(&waker);
    c.with_waker(|w| {
        let f = w.clone();
        assert!(count(&keep) == 3, "C19 cloning the borrowed view takes one clone of the original");
        f.wake_by_ref();
        assert!(wakes() == 1 && count(&keep) == 3, "C19 wake_by_ref on an owned waker wakes once, releases nothing");
        if kani::any() { f.wake(); assert!(wakes() == 2, "C19 wake by value wakes the original once"); } else { drop(f); assert!(wakes() == 1, "C19 drop does not wake"); }
        assert!(count(&keep) == 2, "C19 the clone taken on the foreign side's behalf is released exactly once");
    });
    assert!(count(&keep) == 2);
}
#[kani::proof]
#[kani::unwind(3)]
fn p_owned_clone_clone() {
    let (keep, waker) = setup();
    let c = CRefWaker::from(&waker);
    c.with_waker(|w| {
        let f1 = w.clone();
        let f2 = f1.clone();
        assert!(count(&keep) >= 3, "C19 the original is kept alive while owned wakers exist");
        let end: u8 = kani::any();
        kani::assume(end < 4);
        match end {
            0 => { drop(f1); assert!(count(&keep) >= 3, "C19 a surviving clone still holds the original"); f2.wake_by_ref(); drop(f2); assert!(wakes() == 1); }
            1 => { drop(f2); f1.wake(); assert!(wakes() == 1, "C19 wake after a sibling was dropped still wakes the original"); }
            2 => { f1.wake(); f2.wake(); assert!(wakes() == 2, "C19 every clone's wake wakes the original once"); }
            _ => { f2.wake_by_ref(); f1.wake_by_ref(); assert!(wakes() == 2); drop(f2); drop(f1); }
        }
        assert!(count(&keep) == 2, "C19 after all foreign-side wakers are gone the original's count is back to its value at poll entry");
    });
    drop(waker);
    assert!(count(&keep) == 1 && unsafe { ORIG_DROPPED } == 0, "C19 nothing released the original more than once");
    drop(keep);
    assert!(unsafe { ORIG_DROPPED } == 1);
}
//@ prefix=p_raw kind=property clause=a caller's waker that is NOT Arc-based (hand-written RawWaker vtable, arbitrary data word incl. null — e.g. a task id): every clone taken on the foreign side's behalf is released exactly once through the waker's own drop function, wakes reach the waker's own wake functions with the original data word, once each
static mut RW_CLONES: u32 = 0;
static mut RW_DROPS: u32 = 0;
static mut RW_ORIG_DROPS: u32 = 0;
static mut RW_WAKES: u32 = 0;
static mut RW_DATA_OK: bool = true;
static mut RW_DATA: usize = 0;
/// every clone of this waker has its OWN identity (data word ^ CL), as per-clone handles have
const CL: usize = 0x40;
unsafe fn rw_is_clone(p: *const ()) -> bool { p as usize == RW_DATA ^ CL }
unsafe fn rw_known(p: *const ()) -> bool { p as usize == RW_DATA || rw_is_clone(p) }
unsafe fn rw_clone(p: *const ()) -> core::task::RawWaker { RW_CLONES += 1; RW_DATA_OK &= rw_known(p); core::task::RawWaker::new((RW_DATA ^ CL) as *const (), &RW_VT) }
unsafe fn rw_wake(p: *const ()) { RW_WAKES += 1; RW_DATA_OK &= rw_known(p); if rw_is_clone(p) { RW_DROPS += 1 } else { RW_ORIG_DROPS += 1 } }
unsafe fn rw_wake_by_ref(p: *const ()) { RW_WAKES += 1; RW_DATA_OK &= rw_known(p); }
unsafe fn rw_drop(p: *const ()) { RW_DATA_OK &= rw_known(p); if rw_is_clone(p) { RW_DROPS += 1 } else { RW_ORIG_DROPS += 1 } }
static RW_VT: core::task::RawWakerVTable = core::task::RawWakerVTable::new(rw_clone, rw_wake, rw_wake_by_ref, rw_drop);
#[kani::proof]
#[kani::unwind(3)]
fn p_raw_vtable_waker() {
    let data: usize = kani::any();
    unsafe { RW_DATA = data };
    let waker = unsafe { Waker::from_raw(core::task::RawWaker::new(data as *const (), &RW_VT)) };
    let c = CRefWaker::from(&waker);
    let retained = c.with_waker(|w| {
        w.wake_by_ref();
        assert!(unsafe { RW_WAKES } == 1, "C19 wake_by_ref on the borrowed view wakes once");
        let f = w.clone();
        assert!(unsafe { RW_CLONES } >= 1, "C19 an owned foreign-side waker holds a clone of the original");
        let g = f.clone();
        g.wake_by_ref();
        assert!(unsafe { RW_WAKES } == 2, "C19 wake_by_ref on an owned waker wakes once");
        drop(g);
        f
    });
    assert!(unsafe { RW_CLONES } > unsafe { RW_DROPS }, "C19 a retained waker keeps a clone of the original");
    assert!(unsafe { RW_ORIG_DROPS } == 0, "C19 the foreign side never releases the caller's own waker");
    let by_value: bool = kani::any();
    if by_value { retained.wake(); assert!(unsafe { RW_WAKES } == 3, "C19 wake by value wakes the original once"); } else { drop(retained); assert!(unsafe { RW_WAKES } == 2, "C19 drop does not wake"); }
    assert!(unsafe { RW_DROPS } == unsafe { RW_CLONES }, "C19 every clone taken on the foreign side's behalf is released exactly once (the CLONE itself, also when clones have their own identity or a null data word)");
    assert!(unsafe { RW_ORIG_DROPS } == 0, "C19 the foreign side never releases the caller's own waker");
    assert!(unsafe { RW_DATA_OK }, "C19 the waker's functions are only called with the data word of the original or of one of its clones");
    drop(waker);
    assert!(unsafe { RW_ORIG_DROPS } == 1 && unsafe { RW_DROPS } == unsafe { RW_CLONES }, "C19 the caller's own waker is released by the caller only, once");
    kani::cover!(data == 0 && by_value, "null data word, wake by value");
    kani::cover!(data == CL && !by_value, "clone has the null data word, drop");
}
//@ prefix=p_retained kind=property clause=wakers retained after the poll returned keep working and release their clone exactly once; nothing touches the original after all of them are gone
#[kani::proof]
#[kani::unwind(3)]
fn p_retained_after_poll() {
    let (keep, waker) = setup();
    let retained = {
        let c = CRefWaker::from(&waker);
        c.with_waker(|w| w.clone())
    };
    drop(waker); // the caller's own waker may be gone by the time the foreign side wakes
    assert!(count(&keep) == 2, "C19 the retained waker holds its own clone of the original");
    let r2 = retained.clone();
    retained.wake();
    assert!(wakes() == 1, "C19 a retained waker wakes the original after the poll");
    r2.wake_by_ref();
    assert!(wakes() == 2);
    drop(r2);
    assert!(count(&keep) == 1, "C19 all clones released exactly once");
    drop(keep);
    assert!(unsafe { ORIG_DROPPED } == 1, "C19 the original is released exactly once, by its last owner");
}
//@ prefix=p_last kind=property clause=nothing touches the original after all foreign-side wakers are gone: when the retained waker is the ONLY holder of the caller's waker, waking it by value wakes a live original exactly once and releases it exactly once afterwards; repeated wakes through one retained waker each reach the original
#[kani::proof]
#[kani::unwind(3)]
fn p_last_holder_wake() {
    let arc = Arc::new(Orig { magic: 0x19 });
    let waker = Waker::from(arc);            // the caller's waker holds the only count
    let retained = {
        let c = CRefWaker::from(&waker);
        c.with_waker(|w| w.clone())
    };
    drop(waker);                             // now the retained foreign-side waker is the last holder
    assert!(unsafe { ORIG_DROPPED } == 0, "C19 the original is alive while a foreign-side waker exists");
    if kani::any() { retained.wake(); } else { retained.wake_by_ref(); drop(retained); }
    assert!(wakes() == 1, "C19 the last holder's wake reaches the original exactly once");
    assert!(unsafe { ORIG_DROPPED } == 1, "C19 the original is released exactly once, after the wake");
}
#[kani::proof]
#[kani::unwind(3)]
fn p_last_two_wakes_minimal() {
    let (_keep, waker) = setup();
    let c = CRefWaker::from(&waker);
    c.with_waker(|w| {
        let f = w.clone();
        f.wake_by_ref();
        f.wake_by_ref();
        assert!(wakes() == 2, "C19 two wakes through one owned waker reach the original twice (no coalescing)");
        drop(f);
    });
}
#[kani::proof]
#[kani::unwind(3)]
fn p_last_repeated_wakes() {
    let (keep, waker) = setup();
    let retained = { let c = CRefWaker::from(&waker); c.with_waker(|w| w.clone()) };
    retained.wake_by_ref();
    retained.wake_by_ref();
    assert!(wakes() == 2, "C19 every wake through one retained waker reaches the original (no coalescing)");
    let sib = retained.clone();
    retained.wake();
    sib.wake();
    assert!(wakes() == 4, "C19 a sibling's wake after its clone was woken still reaches the original");
    assert!(count(&keep) == 2, "C19 all clones released");
}
#[kani::proof]
#[kani::unwind(3)]
fn p_last_nested_crossing() {
    // a foreign-side owned waker obtained in one poll is itself handed across the boundary as the
    // caller's waker of a later poll: the second crossing must take its own clone, released once
    let (keep, waker) = setup();
    let first = { let c = CRefWaker::from(&waker); c.with_waker(|w| w.clone()) };
    assert!(count(&keep) == 3, "C19 first crossing holds one clone");
    let second = { let c = CRefWaker::from(&first); c.with_waker(|w| w.clone()) };
    second.wake_by_ref();
    assert!(wakes() == 1, "C19 a wake through two crossings reaches the original once");
    drop(first);
    second.wake_by_ref();
    assert!(wakes() == 2, "C19 the second-level waker stays valid after the first-level one is gone");
    assert!(count(&keep) >= 3, "C19 the original is kept alive by the remaining waker");
    drop(second);
    assert!(count(&keep) == 2, "C19 every clone released exactly once");
    drop(waker);
    drop(keep);
    assert!(unsafe { ORIG_DROPPED } == 1, "C19 the original released exactly once");
}
//@ prefix=p_e2e kind=property clause=end-to-end: a future polled through an opaque object (trait_obj!(fut as Future)) receives a waker whose wake reaches the caller's original, and whose clones are released
#[kani::proof]
#[kani::unwind(3)]
fn p_e2e_future_poll() {
    use core::future::Future;
    use core::pin::Pin;
    use core::task::{Context, Poll};
    struct Fut { polled: bool, stash: Option<Waker> }
    impl Future for Fut {
        type Output = u32;
        fn poll(mut self: Pin<&mut Self>, cx: &mut Context<'_>) -> Poll<u32> {
            if !self.polled {
                self.polled = true;
                cx.waker().wake_by_ref();
                self.stash = Some(cx.waker().clone());
                Poll::Pending
            } else {
                if let Some(w) = self.stash.take() { w.wake(); }
                Poll::Ready(7)
            }
        }
    }
    let (keep, waker) = setup();
    let mut obj = crate::trait_obj!(Fut { polled: false, stash: None } as Future);
    let mut cx = Context::from_waker(&waker);
    let mut p = unsafe { Pin::new_unchecked(&mut obj) };
    assert!(p.as_mut().poll(&mut cx).is_pending());
    assert!(wakes() == 1, "C19 waking inside the poll wakes the caller's original once");
    assert!(count(&keep) == 3, "C19 the stashed waker holds one clone of the original");
    assert!(p.as_mut().poll(&mut cx) == Poll::Ready(7));
    assert!(wakes() == 2, "C19 waking the stashed waker in a later poll wakes the original once");
    assert!(count(&keep) == 2, "C19 the stashed clone was released exactly once");
    drop(obj);
    assert!(count(&keep) == 2);
}
static mut FUT_DROPS: u32 = 0;
static mut OUT_DROPS: u32 = 0;
#[kani::proof]
#[kani::unwind(3)]
fn p_e2e_future_owned_values() {
    // the future and its output own heap values: the glue moves the output out exactly once (no
    // destructor runs on the uninitialised slot, none is skipped) and never destroys the future
    // itself, which stays owned by the object (boxed) or by the caller (by-mut)
    use core::future::Future;
    use core::pin::Pin;
    use core::task::{Context, Poll};
    struct Out { v: u32, heap: std::boxed::Box<u32> }
    impl Drop for Out { fn drop(&mut self) { assert!(*self.heap == !self.v, "C19 a dropped output is a real output"); unsafe { OUT_DROPS += 1 } } }
    struct Fut { v: u32, res: std::boxed::Box<u32>, done: bool }
    impl Drop for Fut { fn drop(&mut self) { assert!(*self.res == self.v ^ 0x55, "C19 a dropped future is intact"); unsafe { FUT_DROPS += 1 } } }
    impl Future for Fut {
        type Output = Out;
        fn poll(mut self: Pin<&mut Self>, _cx: &mut Context<'_>) -> Poll<Out> {
            if !self.done { self.done = true; Poll::Pending } else { Poll::Ready(Out { v: self.v, heap: std::boxed::Box::new(!self.v) }) }
        }
    }
    let (keep, waker) = setup();
    let v: u32 = kani::any();
    let mut cx = Context::from_waker(&waker);
    {
        let mut obj = crate::trait_obj!(Fut { v, res: std::boxed::Box::new(v ^ 0x55), done: false } as Future);
        let mut p = unsafe { Pin::new_unchecked(&mut obj) };
        assert!(p.as_mut().poll(&mut cx).is_pending());
        match p.as_mut().poll(&mut cx) { Poll::Ready(o) => { assert!(o.v == v && *o.heap == !v, "C19 the output crosses intact"); assert!(unsafe { OUT_DROPS } == 0 && unsafe { FUT_DROPS } == 0, "C19 nothing is destroyed by completing"); drop(o); } Poll::Pending => assert!(false, "C19 Ready crosses unchanged") }
        assert!(unsafe { OUT_DROPS } == 1, "C19 the output is owned by the caller exactly once");
        drop(obj);
        assert!(unsafe { FUT_DROPS } == 1, "C19 the boxed future is destroyed exactly once, with its object");
    }
    assert!(count(&keep) == 2, "C19 no clone of the original is kept");
    kani::cover!(true, "end");
}
//@ prefix=b_tree kind=property clause=bounded histories over a tree of three owned wakers (two sharing one record, one separate), each ended by a symbolic choice of wake / wake_by_ref+drop / drop, in both orders: wakes counted exactly, every clone released exactly once, no memory error
fn end(w: Waker, how: u8, expected: &mut u32) {
    match how {
        0 => { w.wake(); *expected += 1; }
        1 => { w.wake_by_ref(); *expected += 1; drop(w); }
        _ => drop(w),
    }
}
#[kani::proof]
#[kani::unwind(3)]
fn b_tree_three() {
    let (keep, waker) = setup();
    let c = CRefWaker::from(&waker);
    let mut expected = 0u32;
    let (h1, h2, h3): (u8, u8, u8) = kani::any();
    kani::assume(h1 < 3 && h2 < 3 && h3 < 3);
    let rev: bool = kani::any();
    c.with_waker(|w| {
        let f1 = w.clone();
        let f2 = f1.clone();   // shares f1's record
        let f3 = w.clone();    // separate record
        assert!(count(&keep) >= 3, "C19 the original is kept alive while owned wakers exist (how many clones the records share is the implementation's business)");
        if rev { end(f3, h3, &mut expected); end(f2, h2, &mut expected); assert!(count(&keep) >= 3, "C19 a surviving waker still holds a clone of the original"); end(f1, h1, &mut expected); }
        else { end(f1, h1, &mut expected); end(f2, h2, &mut expected); assert!(count(&keep) >= 3, "C19 a surviving waker still holds a clone of the original"); end(f3, h3, &mut expected); }
        assert!(wakes() == expected, "C19 the original is woken exactly once per wake");
        assert!(count(&keep) == 2, "C19 with no foreign-side waker left the count is back to its value at poll entry");
    });
    drop(waker);
    drop(keep);
    assert!(unsafe { ORIG_DROPPED } == 1, "C19 the original released exactly once");
    kani::cover!(rev && h1 == 0 && h2 == 2 && h3 == 1, "mixed endings");
}
//@ prefix=canary kind=canary clause=vacuity canary
#[kani::proof]
#[kani::unwind(3)]
fn canary_c19() {
    let (keep, waker) = setup();
    let c = CRefWaker::from(&waker);
    c.with_waker(|w| { let _f = w.clone(); assert!(count(&keep) == 2, "canary: deliberately false"); });
}

// C19 (stream / sink glue, --features futures): polling a Stream or Sink through an opaque object
// reaches the method of the same name, returns its Poll/Result unchanged, and the waker handed to the
// implementation wakes the caller's original.
use super::*;
use core::pin::Pin;
use core::task::{Context, Poll, Waker};
use futures::{Sink, Stream};
use std::sync::Arc;
use std::task::Wake;

static mut WAKES: u32 = 0;
struct Orig;
impl Wake for Orig {
    fn wake(self: Arc<Self>) { unsafe { WAKES += 1 } }
    fn wake_by_ref(self: &Arc<Self>) { unsafe { WAKES += 1 } }
}
fn setup() -> (Arc<Orig>, Waker) { let k = Arc::new(Orig); let w = Waker::from(k.clone()); (k, w) }

/// recording stream: yields `left` items, optionally pending first (waking itself)
struct St { left: u8, next: u32, pend_first: bool, polled: u32 }
impl Stream for St {
    type Item = u32;
    fn poll_next(mut self: Pin<&mut Self>, cx: &mut Context<'_>) -> Poll<Option<u32>> {
        self.polled += 1;
        if self.pend_first { self.pend_first = false; cx.waker().wake_by_ref(); return Poll::Pending; }
        if self.left == 0 { Poll::Ready(None) } else { self.left -= 1; let v = self.next; self.next = v.wrapping_add(1); Poll::Ready(Some(v)) }
    }
    // an honest size hint: exactly `left` items remain (a stream with nothing left may still be Pending)
    fn size_hint(&self) -> (usize, Option<usize>) { (self.left as usize, Some(self.left as usize)) }
}
//@ prefix=p_stream kind=property clause=Stream through an opaque object: poll_next reaches the implementation once per poll and returns Pending / Ready(Some(item)) / Ready(None) unchanged; a wake inside the poll reaches the caller's original waker
#[kani::proof]
#[kani::unwind(3)]
fn p_stream_poll_next() {
    let (keep, waker) = setup();
    let (left, next, pend): (u8, u32, bool) = kani::any();
    kani::assume(left <= 1);
    let mut obj = crate::trait_obj!(St { left, next, pend_first: pend, polled: 0 } as Stream);
    let mut cx = Context::from_waker(&waker);
    let mut p = unsafe { Pin::new_unchecked(&mut obj) };
    let r1 = p.as_mut().poll_next(&mut cx);
    if pend {
        assert!(r1.is_pending(), "C19 Pending crosses unchanged");
        assert!(unsafe { WAKES } == 1, "C19 a wake inside poll_next wakes the caller's original once");
    } else if left == 0 {
        assert!(r1 == Poll::Ready(None), "C19 Ready(None) crosses unchanged");
    } else {
        assert!(r1 == Poll::Ready(Some(next)), "C19 Ready(Some(item)) crosses unchanged");
    }
    assert!(unsafe { WAKES } == pend as u32, "C19 the original is woken once per wake the implementation performs, and never by the glue itself");
    let r2 = p.as_mut().poll_next(&mut cx);
    if pend { assert!(r2 == if left == 0 { Poll::Ready(None) } else { Poll::Ready(Some(next)) }, "C19 second poll continues the stream"); }
    assert!(unsafe { WAKES } == pend as u32, "C19 once per wake: polls that do not wake leave the original unwoken (items, end of stream)");
    assert!(Arc::strong_count(&keep) == 2, "C19 no clone of the original is kept after the polls");
    kani::cover!(pend, "pending first");
    kani::cover!(!pend && left == 1, "item");
}

/// recording sink: each method logs its own tag; symbolic outcomes
#[derive(Clone, Copy, PartialEq, Eq)]
enum Out { Pending, Ok, Err(u64) }
struct Sk { log: [u8; 4], n: usize, got: u32, outcome: Out }
impl Sk {
    fn rec(&mut self, tag: u8) { if self.n < 4 { let i = self.n; self.log[i] = tag; } self.n += 1; }
    fn poll(&self, cx: &mut Context<'_>) -> Poll<Result<(), u64>> {
        match self.outcome { Out::Pending => { cx.waker().wake_by_ref(); Poll::Pending } Out::Ok => Poll::Ready(Ok(())), Out::Err(e) => Poll::Ready(Err(e)) }
    }
}
impl Sink<u32> for Sk {
    type Error = u64;
    fn poll_ready(mut self: Pin<&mut Self>, cx: &mut Context<'_>) -> Poll<Result<(), u64>> { self.rec(1); self.poll(cx) }
    fn start_send(mut self: Pin<&mut Self>, item: u32) -> Result<(), u64> { self.rec(2); self.got = item; match self.outcome { Out::Err(e) => Err(e), _ => Ok(()) } }
    fn poll_flush(mut self: Pin<&mut Self>, cx: &mut Context<'_>) -> Poll<Result<(), u64>> { self.rec(3); self.poll(cx) }
    fn poll_close(mut self: Pin<&mut Self>, cx: &mut Context<'_>) -> Poll<Result<(), u64>> { self.rec(4); self.poll(cx) }
}
static mut SEEN: (u8, usize, u32) = (0, 0, 0);
impl Drop for Sk { fn drop(&mut self) { unsafe { SEEN = (self.log[0], self.n, self.got) } } }

//@ prefix=p_sink kind=property clause=Sink through an opaque object: poll_ready / start_send / poll_flush / poll_close each reach the method of the same name exactly once, the item arrives unchanged, Pending / Ok / Err(e) return unchanged, a wake inside the poll reaches the caller's original
#[kani::proof]
#[kani::unwind(3)]
fn p_sink_methods() {
    let (keep, waker) = setup();
    let which: u8 = kani::any();
    kani::assume(which >= 1 && which <= 4);
    let oc: u8 = kani::any();
    let e: u64 = kani::any();
    kani::assume(oc < 3);
    let outcome = match oc { 0 => Out::Pending, 1 => Out::Ok, _ => Out::Err(e) };
    let item: u32 = kani::any();
    let mut obj = crate::trait_obj!(Sk { log: [0; 4], n: 0, got: 0, outcome } as Sink);
    let mut cx = Context::from_waker(&waker);
    {
        let mut p = unsafe { Pin::new_unchecked(&mut obj) };
        let r: Poll<Result<(), u64>> = match which {
            1 => p.as_mut().poll_ready(&mut cx),
            2 => Poll::Ready(p.as_mut().start_send(item)),
            3 => p.as_mut().poll_flush(&mut cx),
            _ => p.as_mut().poll_close(&mut cx),
        };
        match outcome {
            Out::Pending if which != 2 => { assert!(r.is_pending(), "C19 Pending crosses unchanged"); assert!(unsafe { WAKES } == 1, "C19 a wake inside the poll wakes the caller's original once"); }
            Out::Err(x) => { assert!(r == Poll::Ready(Err(x)), "C19 Err(e) crosses unchanged"); assert!(unsafe { WAKES } == 0, "C19 calls that do not wake leave the original unwoken"); }
            _ => { assert!(r == Poll::Ready(Ok(())), "C19 Ok crosses unchanged"); assert!(unsafe { WAKES } == 0, "C19 calls that do not wake leave the original unwoken"); }
        }
    }
    drop(obj);
    let (first, n, got) = unsafe { SEEN };
    assert!(n == 1 && first == which, "C19 the call reached the method of the same name, exactly once");
    if which == 2 { assert!(got == item, "C19 the item arrives unchanged"); }
    assert!(Arc::strong_count(&keep) == 2, "C19 no clone of the original is kept after the call");
    kani::cover!(which == 4 && oc == 2, "close with error");
    kani::cover!(which == 1 && oc == 0, "ready pending");
}
//@ prefix=canary kind=canary clause=vacuity canary
#[kani::proof]
#[kani::unwind(3)]
fn canary_c19f() {
    let (_keep, waker) = setup();
    let mut obj = crate::trait_obj!(St { left: 1, next: 5, pend_first: false, polled: 0 } as Stream);
    let mut cx = Context::from_waker(&waker);
    let p = unsafe { Pin::new_unchecked(&mut obj) };
    assert!(p.poll_next(&mut cx) == Poll::Ready(None), "canary: deliberately false");
}

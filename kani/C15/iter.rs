// C15 — CIterator yields exactly the items of the iterator it wraps.
use super::{AsCIterator, CIterator};
use crate::trait_group::c_void;
use core::mem::MaybeUninit;
use std::boxed::Box;
use std::vec::Vec;

static mut DROPS: u32 = 0;
static mut MADE: u32 = 0;
fn drops() -> u32 { unsafe { DROPS } }
struct D { v: u32, heap: Box<u32> }
impl D { fn new(v: u32) -> Self { unsafe { MADE += 1 }; D { v, heap: Box::new(!v) } } fn ok(&self) -> bool { *self.heap == !self.v } }
impl Drop for D { fn drop(&mut self) { assert!(self.ok(), "C15 dropped value is a real item"); unsafe { DROPS += 1 } } }

//@ prefix=p_next kind=property clause=one next() from an arbitrary source position: equals next() of a twin of the wrapped iterator, including None at the end and on repeated calls; the source advances by exactly one item
#[kani::proof]
#[kani::unwind(6)]
fn p_next_slice() {
    let arr: [u32; 4] = kani::any();
    let k: usize = kani::any();
    kani::assume(k <= 4);
    let mut src = arr.iter().copied();
    let mut twin = arr.iter().copied();
    let mut i = 0;
    while i < k { src.next(); twin.next(); i += 1; }       // arbitrary position
    let r = { let mut c = CIterator::new(&mut src); c.next() };
    assert!(r == twin.next(), "C15 next() equals the wrapped iterator's next()");
    assert!(src.len() == twin.len(), "C15 the source advanced by exactly one item");
    let r2 = { let mut c: CIterator<u32> = (&mut src).into(); c.next() };
    assert!(r2 == twin.next(), "C15 a second wrapper continues where the source is (interleaving with direct use)");
    assert!(src.next() == twin.next(), "C15 direct use of the source after wrapping agrees");
    kani::cover!(k == 4, "at the end");
    kani::cover!(k == 0, "at the start");
}
#[kani::proof]
#[kani::unwind(6)]
fn p_next_filtered() {
    // sources whose size_hint is (0, Some(n)) with items left: filter / skip_while
    let arr: [u32; 3] = kani::any();
    let mut src = arr.iter().copied().filter(|x| x % 2 == 0);
    let mut twin = arr.iter().copied().filter(|x| x % 2 == 0);
    {
        let mut c = CIterator::new(&mut src);
        assert!(c.next() == twin.next(), "C15 filtered source: first item");
        assert!(c.next() == twin.next(), "C15 filtered source: second item");
    }
    assert!(src.next() == twin.next(), "C15 filtered source advanced exactly as the twin");
    let mut s2 = arr.iter().copied().skip_while(|x| *x > 100);
    let mut t2 = arr.iter().copied().skip_while(|x| *x > 100);
    let r = { let mut c = CIterator::new(&mut s2); c.next() };
    assert!(r == t2.next(), "C15 skip_while source: first item");
    kani::cover!(arr[0] % 2 == 0 && arr[1] % 2 == 1 && arr[2] % 2 == 0, "gap in the middle");
}
#[kani::proof]
fn p_next_range() {
    let lo: u32 = kani::any();
    let hi: u32 = kani::any();
    let mut src = lo..hi;
    let mut twin = lo..hi;
    let mut c = src.as_citer();
    assert!(c.next() == twin.next(), "C15 range: first item");
    assert!(c.next() == twin.next(), "C15 range: second item");
    drop(c);
    assert!(src == twin, "C15 source advanced exactly as the twin");
    kani::cover!(lo >= hi, "empty source");
    kani::cover!(lo < hi, "non-empty source");
}
#[kani::proof]
fn p_next_end_repeats() {
    let x: u32 = kani::any();
    let mut src = Some(x).into_iter();
    let mut c = CIterator::new(&mut src);
    assert!(c.next() == Some(x), "C15 yields the item");
    assert!(c.next().is_none(), "C15 ends when the source ends");
    assert!(c.next().is_none(), "C15 stays ended on repeated calls");
    // (a zero-sized source such as core::iter::Empty is deliberately not used: cglue erases `&mut I` to
    // `&mut c_void`, a 1-byte type, which Kani flags for zero-sized I; that is outside what C15 states)
    let mut e = None::<u32>.into_iter();
    let mut c = CIterator::new(&mut e);
    assert!(c.next().is_none() && c.next().is_none(), "C15 empty source yields nothing");
}
//@ prefix=p_owned kind=property clause=heap-owning items: every item the source yields comes out exactly once, intact; nothing is produced or dropped that the source did not yield; the out slot is read only when the trampoline returned 0
#[kani::proof]
#[kani::unwind(5)]
fn p_owned_items() {
    let n: usize = kani::any();
    kani::assume(n <= 2);
    let mut v: Vec<D> = Vec::new();
    let mut i = 0;
    while i < n { v.push(D::new(i as u32 + 5)); i += 1; }
    let mut src = v.into_iter();
    let take: usize = kani::any();
    kani::assume(take <= 3);
    let mut got = 0usize;
    {
        let mut c = CIterator::new(&mut src);
        let mut j = 0;
        while j < take {
            match c.next() {
                Some(d) => { assert!(d.v == got as u32 + 5 && d.ok(), "C15 items come out in order, intact"); got += 1; drop(d); assert!(drops() as usize == got, "C15 each yielded item is owned by the caller exactly once"); }
                None => { assert!(got == n, "C15 None only after the source is exhausted"); }
            }
            j += 1;
        }
    }
    assert!(got == if take < n { take } else { n }, "C15 yields exactly min(requested, available) items");
    assert!(drops() as usize == got, "C15 the wrapper drops nothing itself");
    drop(src);
    assert!(drops() as usize == n && unsafe { MADE } as usize == n, "C15 remaining items are dropped by the source exactly once; nothing was fabricated");
    kani::cover!(take > n, "past the end");
    kani::cover!(take < n, "stopped early");
}
#[kani::proof]
#[kani::unwind(6)]
fn p_owned_skipping_consumers() {
    // the standard consumers that SKIP items (nth / skip / last / count) on a CIterator over
    // heap-owning items: the selected item is the twin's, every skipped item is destroyed exactly
    // once, the rest stays in the source
    let n: usize = kani::any();
    kani::assume(n <= 3);
    let mut v: Vec<D> = Vec::new();
    let mut i = 0;
    while i < n { v.push(D::new(i as u32 + 5)); i += 1; }
    let mut src = v.into_iter();
    let k: usize = kani::any();
    kani::assume(k <= 3);
    let how: u8 = kani::any();
    kani::assume(how < 4);
    let consumed;
    {
        let mut c = CIterator::new(&mut src);
        let r = match how { 0 => c.nth(k), 1 => c.skip(k).next(), 2 => c.last(), _ => { let cnt = c.count(); assert!(cnt == n, "C15 count() counts exactly the source's items"); None } };
        let expect_idx = match how { 0 | 1 => if k < n { Some(k) } else { None }, 2 => if n > 0 { Some(n - 1) } else { None }, _ => None };
        match (&r, expect_idx) {
            (Some(d), Some(ix)) => assert!(d.v == ix as u32 + 5 && d.ok(), "C15 the item selected through a skipping consumer is the twin's, intact"),
            (None, None) => {}
            _ => assert!(false, "C15 a skipping consumer yields an item exactly when the twin does"),
        }
        consumed = match how { 0 | 1 => if k < n { k + 1 } else { n }, _ => n };
        let held = r.is_some() as usize;
        assert!(drops() as usize == consumed - held, "C15 every skipped item is destroyed exactly once (none leaked, none twice)");
        drop(r);
    }
    assert!(drops() as usize == consumed, "C15 the selected item is owned by the caller exactly once");
    drop(src);
    assert!(drops() as usize == n && unsafe { MADE } as usize == n, "C15 remaining items are dropped by the source exactly once; nothing was fabricated");
    kani::cover!(how == 0 && k == 1 && n == 3, "nth(1) of 3");
    kani::cover!(how == 1 && k == 2 && n == 3, "skip(2) of 3");
    kani::cover!(how == 2 && n == 2, "last of 2");
}
/// a source that is NOT fused: yields items[0..3] (each possibly None), then None
#[derive(Clone, Copy)]
struct Gappy { items: [Option<u32>; 3], pos: usize }
impl Iterator for Gappy { type Item = u32; fn next(&mut self) -> Option<u32> { if self.pos < 3 { self.pos += 1; self.items[self.pos - 1] } else { None } } }
#[kani::proof]
#[kani::unwind(6)]
fn p_next_consumers_nonfused_twin() {
    // any standard consumer applied to the CIterator behaves as the same consumer applied to the
    // wrapped iterator itself: same answer, source left at the same position (also when the
    // source is not fused and reports None in the middle)
    let items: [Option<u32>; 3] = kani::any();
    let mut src = Gappy { items, pos: 0 };
    let mut twin = src;
    let k: usize = kani::any();
    kani::assume(k <= 3);
    let how: u8 = kani::any();
    kani::assume(how < 4);
    let (a, b) = {
        let mut c = CIterator::new(&mut src);
        match how {
            0 => (c.nth(k), twin.nth(k)),
            1 => ((&mut c).skip(k).next(), (&mut twin).skip(k).next()),
            2 => { let x = c.next(); let y = twin.next(); let _ = (c.next(), twin.next()); (x.or(c.next()), y.or(twin.next())) }
            _ => ((&mut c).take(k).last(), (&mut twin).take(k).last()),
        }
    };
    assert!(a == b, "C15 a consumer over the CIterator answers as the same consumer over the wrapped iterator");
    assert!(src.pos == twin.pos, "C15 and leaves the source at the same position (one poll of the source per poll of the wrapper)");
    kani::cover!(how == 0 && k == 2 && items[1].is_none() && items[2].is_some(), "nth across a None of a non-fused source");
    kani::cover!(how == 1 && k == 1, "skip");
}
struct Pz;
impl Drop for Pz { fn drop(&mut self) { unsafe { DROPS += 1 } } }
#[repr(align(64))]
struct Pal { v: u32, heap: Box<u8> }
impl Drop for Pal { fn drop(&mut self) { unsafe { DROPS += 1 } } }
struct Pbig([u64; 24]);
fn items_class<T>(mk: fn() -> T, counted: bool) {
    let n: usize = kani::any();
    kani::assume(n <= 2);
    let mut v: Vec<T> = Vec::new();
    let mut i = 0;
    while i < n { v.push(mk()); i += 1; }
    let mut src = v.into_iter();
    let mut got = 0usize;
    {
        let mut c = CIterator::new(&mut src);
        let mut j = 0;
        while j < 3 { if let Some(x) = c.next() { got += 1; drop(x); assert!(drops() as usize == if counted { got } else { 0 }, "C15 each yielded item is owned by the caller exactly once (any item class)"); } j += 1; }
    }
    assert!(got == n, "C15 yields exactly the source's items (any item class)");
    drop(src);
    assert!(drops() as usize == if counted { n } else { 0 }, "C15 nothing produced or dropped that the source did not yield (any item class)");
    kani::cover!(n == 2, "two items");
}
#[kani::proof] #[kani::unwind(5)] fn p_owned_class_zst_drop() { items_class::<Pz>(|| Pz, true); }
#[kani::proof] #[kani::unwind(5)] fn p_owned_class_aligned() { items_class::<Pal>(|| Pal { v: 1, heap: Box::new(1) }, true); }
#[kani::proof] #[kani::unwind(5)] fn p_owned_class_big() { items_class::<Pbig>(|| Pbig([2; 24]), false); }
static mut TRAMP_CALLS: u32 = 0;
extern "C" fn never_yields(_it: &mut c_void, _out: &mut MaybeUninit<D>) -> i32 { unsafe { TRAMP_CALLS += 1 }; 1 }
extern "C" fn yields_other_code(_it: &mut c_void, _out: &mut MaybeUninit<D>) -> i32 { unsafe { TRAMP_CALLS += 1 }; -7 }
#[kani::proof]
fn p_owned_slot_untouched() {
    // a foreign iterator that reports "no item" without writing the slot: reading the slot would
    // hand out / drop an uninitialised heap-owning value and fail Kani's pointer obligations
    let mut state = 0u64;
    let which: bool = kani::any();
    let mut c = CIterator::<D> { iter: unsafe { &mut *(&mut state as *mut u64 as *mut c_void) }, func: if which { never_yields } else { yields_other_code } };
    assert!(c.next().is_none(), "C15 a non-zero code means no item");
    assert!(c.next().is_none(), "C15 and again");
    unsafe { assert!(TRAMP_CALLS == 2, "C15 one trampoline call per next()") };
    assert!(drops() == 0, "C15 nothing dropped: the slot was never read");
}
//@ prefix=p_layout kind=property clause=CIterator::new stores {state pointer, next function}; the function returns 0 and writes the slot for an item, non-zero without an item
#[kani::proof]
fn p_layout_new() {
    let x: u32 = kani::any();
    let mut src = Some(x).into_iter();
    let sp = &mut src as *mut _ as usize;
    let c = CIterator::new(&mut src);
    let w: [usize; 2] = unsafe { core::mem::transmute_copy(&c) };
    assert!(w[0] == sp, "C15 first word is the wrapped iterator's address");
    let f: extern "C" fn(&mut c_void, &mut MaybeUninit<u32>) -> i32 = unsafe { core::mem::transmute(w[1]) };
    let mut out = MaybeUninit::<u32>::new(0xdead_beef);
    let rc = f(unsafe { &mut *(w[0] as *mut c_void) }, &mut out);
    assert!(rc == 0 && unsafe { out.assume_init() } == x, "C15 trampoline returns 0 and writes the item");
    let mut out = MaybeUninit::<u32>::new(0xdead_beef);
    let rc = f(unsafe { &mut *(w[0] as *mut c_void) }, &mut out);
    assert!(rc != 0 && unsafe { out.assume_init() } == 0xdead_beef, "C15 trampoline returns non-zero and leaves the slot alone at the end");
    core::mem::forget(c);
}
//@ prefix=canary kind=canary clause=vacuity canary
#[kani::proof]
fn canary_iter() {
    let x: u32 = kani::any();
    let mut src = Some(x).into_iter();
    let mut c = CIterator::new(&mut src);
    assert!(c.next().is_none(), "canary: deliberately false");
}

// C15 — callbacks deliver every item once, in order, until told to stop.
use super::{Callback, Callbackable, FeedCallback, FromExtend, OpaqueCallback};
use std::boxed::Box;
use std::vec::Vec;

static mut DROPS: u32 = 0;
fn drops() -> u32 { unsafe { DROPS } }
struct D { v: u32, heap: Box<u32> }
impl D { fn new(v: u32) -> Self { D { v, heap: Box::new(!v) } } fn ok(&self) -> bool { *self.heap == !self.v } }
impl Drop for D { fn drop(&mut self) { assert!(self.ok(), "C15 dropped value is a real item"); unsafe { DROPS += 1 } } }

/// recording sink: up to 8 items, returns `true` while fewer than `stop` items were seen AFTER this one
struct Sink { seen: [u32; 8], n: usize, stop: usize }
impl Sink {
    fn new(stop: usize) -> Self { Sink { seen: [0; 8], n: 0, stop } }
    fn take(&mut self, v: u32) -> bool { if self.n < 8 { self.seen[self.n] = v; } self.n += 1; self.n <= self.stop }
}

//@ prefix=p_call kind=property clause=one call: the underlying closure is invoked exactly once with the argument and its answer is returned (OpaqueCallback::call, both Callbackable impls, closure Callbackable)
#[kani::proof]
fn p_call_closure() {
    let x: u32 = kani::any();
    let answer: bool = kani::any();
    let mut count = 0u32;
    let mut last = 0u32;
    let mut f = |v: u32| { count += 1; last = v; answer };
    let mut cb: OpaqueCallback<u32> = (&mut f).into();
    let route: u8 = kani::any();
    let r = match route % 3 {
        0 => cb.call(x),
        1 => Callbackable::call(&mut cb, x),
        _ => { let mut r = &mut cb; Callbackable::call(&mut r, x) }
    };
    drop(cb);
    assert!(count == 1, "C15 closure invoked exactly once per call");
    assert!(last == x, "C15 closure receives the argument unchanged");
    assert!(r == answer, "C15 the closure's answer is returned");
    let mut g = |v: u32| v == x;
    assert!(Callbackable::call(&mut g, x) && !Callbackable::call(&mut g, x.wrapping_add(1)), "C15 closures are Callbackable directly");
    kani::cover!(route % 3 == 0, "route 0");
    kani::cover!(route % 3 == 2, "route 2");
}
#[kani::proof]
fn p_call_after_stop() {
    // a stop answer ends ONE feed; the callback itself stays usable: a later call / feed reaches the closure again
    let (a, b, c): (u32, u32, u32) = kani::any();
    let mut seen = [0u32; 4];
    let mut n = 0usize;
    let mut f = |v: u32| { if n < 4 { seen[n] = v; } n += 1; v % 2 == 0 };
    let mut cb: OpaqueCallback<u32> = (&mut f).into();
    let r1 = cb.call(a);
    let r2 = cb.call(b);
    let cnt = [c, c ^ 1].iter().copied().feed_into_mut(&mut cb);
    drop(cb);
    assert!(r1 == (a % 2 == 0) && r2 == (b % 2 == 0), "C15 every call returns the closure's own answer, also after an earlier false");
    assert!(seen[0] == a && seen[1] == b && seen[2] == c, "C15 the closure is invoked for every call, also after it once answered false");
    assert!(cnt == if c % 2 == 0 { 2 } else { 1 } && n == 2 + cnt, "C15 a later feed offers items again until told to stop");
    kani::cover!(a % 2 == 1 && b % 2 == 0, "stop then continue");
}
#[kani::proof]
fn p_call_moves_item_once() {
    let v: u32 = kani::any();
    let keep: bool = kani::any();
    let mut slot: Option<D> = None;
    let mut f = |d: D| { if keep { slot = Some(d); } true };
    let mut cb: OpaqueCallback<D> = (&mut f).into();
    let _ = cb.call(D::new(v));
    drop(cb);
    assert!(drops() == !keep as u32, "C15 item is moved into the closure exactly once (dropped there or kept)");
    if keep { assert!(slot.as_ref().unwrap().v == v && slot.as_ref().unwrap().ok(), "C15 item arrives intact"); }
    drop(slot);
    assert!(drops() == 1, "C15 item dropped exactly once");
}
struct Pz;
impl Drop for Pz { fn drop(&mut self) { unsafe { DROPS += 1 } } }
#[repr(align(64))]
struct Pal { v: u32, heap: Box<u8> }
impl Drop for Pal { fn drop(&mut self) { unsafe { DROPS += 1 } } }
fn call_class<T>(mk: fn() -> T) {
    let keep: bool = kani::any();
    let mut slot: Option<T> = None;
    let mut f = |d: T| { if keep { slot = Some(d); } true };
    let mut cb: OpaqueCallback<T> = (&mut f).into();
    let _ = cb.call(mk());
    drop(cb);
    assert!(drops() == !keep as u32 && slot.is_some() == keep, "C15 the item is moved into the closure exactly once (any item class)");
    drop(slot);
    assert!(drops() == 1, "C15 item dropped exactly once (any item class)");
    let mut v: Vec<T> = Vec::new();
    let mut cb: OpaqueCallback<T> = (&mut v).into();
    assert!(cb.call(mk()), "C15 vector callback continues (any item class)");
    drop(cb);
    assert!(v.len() == 1 && drops() == 1, "C15 the vector holds the offered item, nothing dropped (any item class)");
    drop(v);
    assert!(drops() == 2);
}
#[kani::proof] fn p_call_class_zst_drop() { call_class::<Pz>(|| Pz); kani::cover!(true, "end"); }
#[kani::proof] fn p_call_class_aligned() { call_class::<Pal>(|| Pal { v: 1, heap: Box::new(1) }); kani::cover!(true, "end"); }
//@ prefix=p_vec kind=property clause=collecting callbacks: From<&mut Vec<T>> pushes exactly the offered item and continues; from_extend() extends the collection by exactly the offered item and continues
#[kani::proof]
fn p_vec_callback() {
    let (a, b): (u32, u32) = kani::any();
    let mut v: Vec<u32> = Vec::new();
    let pre: bool = kani::any();
    if pre { v.push(7); }
    let base = v.len();
    let mut cb: OpaqueCallback<u32> = (&mut v).into();
    assert!(cb.call(a), "C15 vector callback continues");
    assert!(cb.call(b), "C15 vector callback continues");
    drop(cb);
    assert!(v.len() == base + 2 && v[base] == a && v[base + 1] == b, "C15 vector holds exactly the offered items in order");
    kani::cover!(pre, "non-empty start");
}
/// an Extend collection that is not a Vec
struct Bag { items: [u32; 4], n: usize, extend_calls: u32 }
impl Extend<u32> for Bag {
    fn extend<I: IntoIterator<Item = u32>>(&mut self, it: I) { self.extend_calls += 1; for x in it { if self.n < 4 { self.items[self.n] = x; } self.n += 1; } }
}
#[kani::proof]
#[kani::unwind(4)]
fn p_vec_from_extend() {
    let (a, b): (u32, u32) = kani::any();
    let mut bag = Bag { items: [0; 4], n: 0, extend_calls: 0 };
    let mut cb = bag.from_extend();
    assert!(cb.call(a) && cb.call(b), "C15 extend callback continues");
    drop(cb);
    assert!(bag.n == 2 && bag.items[0] == a && bag.items[1] == b, "C15 collection extended by exactly the offered items in order");
    assert!(bag.extend_calls == 2, "C15 one extend per offered item");
}
//@ prefix=p_opaque kind=property clause=Callback::into_opaque / new preserve context and function words
#[kani::proof]
fn p_opaque_words() {
    extern "C" fn tramp(ctx: &mut u64, arg: u32) -> bool { *ctx += arg as u64; arg != 0 }
    let mut ctx: u64 = kani::any();
    kani::assume(ctx < 1 << 40);
    let c0 = ctx;
    let cp = &mut ctx as *mut u64 as usize;
    let cb = Callback::new(&mut ctx, tramp);
    let w: [usize; 2] = unsafe { core::mem::transmute_copy(&cb) };
    assert!(w[0] == cp && w[1] == tramp as usize, "C15 Callback::new stores {context, func}");
    let o = cb.into_opaque();
    let w2: [usize; 2] = unsafe { core::mem::transmute_copy(&o) };
    assert!(w2 == w, "C15 into_opaque preserves both words");
    let mut oc: OpaqueCallback<u32> = OpaqueCallback::from(Callback::new(&mut ctx, tramp));
    let x: u32 = kani::any();
    let r = oc.call(x);
    assert!(r == (x != 0) && ctx == c0 + x as u64, "C15 call reaches the stored function with the stored context");
}

// ---- feed loops (bounded) ---------------------------------------------------------------------
fn feed_expect(n: usize, stop: usize) -> usize { if stop < n { stop + 1 } else { n } }
fn check_feed<const N: usize>() {
    let items: [u32; N] = kani::any();
    let stop: usize = kani::any();
    kani::assume(stop <= N);
    let mut sink = Sink::new(stop);
    let route: u8 = kani::any();
    let inexact: bool = kani::any();
    let cnt = {
        let mut f = |v: u32| sink.take(v);
        let mut cb: OpaqueCallback<u32> = (&mut f).into();
        // (sources with an exact size hint and sources whose lower size hint is 0)
        match (route % 3, inexact) {
            (0, false) => items.iter().copied().feed_into_mut(&mut cb),
            (0, true) => items.iter().copied().filter(|_| true).feed_into_mut(&mut cb),
            (1, false) => items.iter().copied().feed_into(cb),
            (1, true) => items.iter().copied().filter(|_| true).feed_into(cb),
            _ => { cb.extend(items.iter().copied()); usize::MAX }
        }
    };
    kani::cover!(inexact && route % 3 == 0, "source with an inexact size hint");
    let expect = feed_expect(N, stop);
    if route % 3 != 2 { assert!(cnt == expect, "C15 feed reports the number of items offered"); }
    assert!(sink.n == expect, "C15 sink invoked once per offered item and never after it returned false");
    let mut i = 0;
    while i < expect { assert!(sink.seen[i] == items[i], "C15 items arrive in order, unchanged"); i += 1; }
    kani::cover!(stop == 0, "stop at first (or empty)");
    kani::cover!(stop == N, "never stops");
    kani::cover!(route % 3 == 2, "Extend route");
}
fn check_feed_drop<const N: usize>() {
    // heap-owning items from a Vec source: offered items are moved to the sink, the rest dropped once
    let stop: usize = kani::any();
    kani::assume(stop <= N);
    let mut src: Vec<D> = Vec::new();
    let mut i = 0;
    while i < N { src.push(D::new(i as u32 + 100)); i += 1; }
    let mut got: Vec<D> = Vec::new();
    let mut n = 0usize;
    let cnt = {
        let mut f = |d: D| { got.push(d); n += 1; n <= stop };
        let mut cb: OpaqueCallback<D> = (&mut f).into();
        src.feed_into_mut(&mut cb)
    };
    let expect = feed_expect(N, stop);
    assert!(cnt == expect && got.len() == expect, "C15 exactly the offered items reach the sink");
    assert!(drops() as usize == N - expect, "C15 items not offered are dropped exactly once, offered ones are not dropped");
    let mut i = 0;
    while i < expect { assert!(got[i].v == i as u32 + 100 && got[i].ok(), "C15 items arrive in order, intact"); i += 1; }
    drop(got);
    assert!(drops() as usize == N, "C15 every item dropped exactly once");
}
fn check_feed_vec<const N: usize>() {
    // collecting sink: Vec ends up holding exactly the offered items
    let items: [u32; N] = kani::any();
    let mut v: Vec<u32> = Vec::new();
    let cnt = items.iter().copied().feed_into((&mut v).into());
    assert!(cnt == N && v.len() == N, "C15 collecting callback holds exactly the offered items");
    let mut i = 0;
    while i < N { assert!(v[i] == items[i], "C15 collected in order"); i += 1; }
}
fn check_feed_source<const N: usize>() {
    // the SOURCE is not consumed past the item after which the sink said stop
    let items: [u32; N] = kani::any();
    let stop: usize = kani::any();
    kani::assume(stop <= N);
    let mut sink = Sink::new(stop);
    let route: u8 = kani::any();
    let mut it = items.iter().copied();
    {
        let mut f = |v: u32| sink.take(v);
        let mut cb: OpaqueCallback<u32> = (&mut f).into();
        match route % 2 {
            0 => { let _ = (&mut it).feed_into_mut(&mut cb); }
            _ => { cb.extend(&mut it); }
        }
    }
    let expect = feed_expect(N, stop);
    assert!(sink.n == expect, "C15 sink invoked once per offered item");
    assert!(it.len() == N - expect, "C15 feeding stops after the first false: the source keeps every item that was not offered");
    if expect < N { assert!(it.next() == Some(items[expect]), "C15 the next item of the source is the first one not offered"); }
    kani::cover!(stop < N, "stopped early");
    kani::cover!(route % 2 == 1, "Extend route");
}
macro_rules! inst { ($n:ident, $u:literal, $f:ident, $l:literal) => { #[kani::proof] #[kani::unwind($u)] fn $n() { $f::<$l>(); kani::cover!(true, "reaches end"); } }; }
//@ prefix=b_feed kind=property clause=bounded feed loop (feed_into_mut / feed_into / Extend): sink sees exactly the first min(stop+1,n) items in order, count reported, items not offered are dropped exactly once
inst!(b_feed_0, 3, check_feed, 0);
inst!(b_feed_1, 4, check_feed, 1);
inst!(b_feed_3, 6, check_feed, 3);
inst!(b_feed_drop_2, 5, check_feed_drop, 2);
inst!(b_feed_vec_2, 5, check_feed_vec, 2);
inst!(b_feed_source_3, 6, check_feed_source, 3);
//@thorough-begin
inst!(b_feed_2, 5, check_feed, 2);
inst!(b_feed_4, 7, check_feed, 4);
inst!(b_feed_6, 9, check_feed, 6);
inst!(b_feed_drop_0, 3, check_feed_drop, 0);
inst!(b_feed_drop_4, 7, check_feed_drop, 4);
inst!(b_feed_vec_4, 7, check_feed_vec, 4);
inst!(b_feed_8, 11, check_feed, 8);
inst!(b_feed_drop_6, 9, check_feed_drop, 6);
//@thorough-end

//@ prefix=canary kind=canary clause=vacuity canary
#[kani::proof]
#[kani::unwind(5)]
fn canary_feed() {
    let items: [u32; 2] = kani::any();
    let mut sink = Sink::new(0);
    let mut f = |v: u32| sink.take(v);
    let mut cb: OpaqueCallback<u32> = (&mut f).into();
    let cnt = items.iter().copied().feed_into_mut(&mut cb);
    assert!(cnt == 2, "canary: deliberately false (stops after the first)");
}

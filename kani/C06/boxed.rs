// C06 — CBox / CSliceBox: every owned value destroyed exactly once, memory freed with its layout.
use super::{cglue_drop_box, cglue_drop_slice_box, CBox, CSliceBox};
use crate::slice::CSliceMut;
use crate::trait_group::{IntoInner, NoContext, Opaquable};
use std::boxed::Box;
use std::vec::Vec;

static mut DROPS: u32 = 0;
fn drops() -> u32 { unsafe { DROPS } }
struct D { v: u32, heap: Box<u32> }
impl D { fn new(v: u32) -> Self { D { v, heap: Box::new(!v) } } fn ok(&self) -> bool { *self.heap == !self.v } }
impl Drop for D { fn drop(&mut self) { assert!(self.ok(), "C06 dropped value is a real, intact value"); unsafe { DROPS += 1 } } }
struct Zd;
impl Drop for Zd { fn drop(&mut self) { unsafe { DROPS += 1 } } }

//@ prefix=p_cbox kind=property clause=CBox (from Box<T>, from T, from (T,NoContext)): value reachable and intact; dropped exactly once on drop, also after into_opaque; into_inner moves it out without dropping and frees the box; memory freed with its layout, nothing leaked
#[kani::proof]
fn p_cbox_lifecycle() {
    let v: u32 = kani::any();
    let how: u8 = kani::any();
    kani::assume(how < 3);
    let mut b: CBox<D> = match how { 0 => CBox::from(Box::new(D::new(v))), 1 => CBox::from(D::new(v)), _ => CBox::from((D::new(v), NoContext::default())) };
    assert!(b.v == v && b.ok(), "C06 boxed value reachable through Deref");
    b.v = v ^ 1; *b.heap = !(v ^ 1);
    assert!(drops() == 0, "C06 creation drops nothing");
    let end: u8 = kani::any();
    kani::assume(end < 3);
    match end {
        0 => { drop(b); assert!(drops() == 1, "C06 drop destroys the value exactly once"); }
        1 => { let o = b.into_opaque(); assert!(drops() == 0, "C06 into_opaque drops nothing"); drop(o); assert!(drops() == 1, "C06 dropping the opaque box destroys the value exactly once"); }
        _ => { let d = unsafe { b.into_inner() }; assert!(drops() == 0 && d.v == v ^ 1 && d.ok(), "C06 into_inner moves the value out intact without dropping"); drop(d); assert!(drops() == 1, "C06 moved-out value dropped exactly once"); }
    }
    kani::cover!(how == 2 && end == 2, "tuple ctor + into_inner");
}
#[kani::proof]
fn p_cbox_plain_payload() {
    // a payload WITHOUT destructor: nothing to count, but its memory must still be released
    // (harness-end leak obligation) and a release function must be stored
    let v: u64 = kani::any();
    let b: CBox<[u64; 8]> = CBox::from([v; 8]);
    assert!(b[7] == v && b.drop_fn.is_some(), "C06 a box over a plain payload carries its release function");
    if kani::any() { drop(b); } else { let o = b.into_opaque(); drop(o); }
    let sb = CSliceBox::from(std::vec![v, v ^ 1].into_boxed_slice());
    assert!(sb[1] == v ^ 1 && sb.drop_fn.is_some());
    drop(sb);
    kani::cover!(true, "end");
}
struct Pbig([u64; 24]);
#[repr(align(64))]
struct Pal { v: u32, heap: Box<u8> }
impl Drop for Pal { fn drop(&mut self) { unsafe { DROPS += 1 } } }
fn cbox_class<T: Send>(mk: fn() -> T, counted: bool) {
    let route: u8 = kani::any();
    kani::assume(route < 3);
    let b: CBox<T> = if kani::any() { CBox::from(mk()) } else { CBox::from(Box::new(mk())) };
    assert!(b.drop_fn.is_some(), "C06 every box carries its release function (any payload class)");
    match route {
        0 => drop(b),
        1 => drop(b.into_opaque()),
        _ => { let v = unsafe { b.into_inner() }; assert!(drops() == 0, "C06 into_inner moves the value out without dropping (any payload class)"); drop(v); }
    }
    assert!(drops() == counted as u32, "C06 value destroyed exactly once (any payload class)");
}
#[kani::proof] fn p_cbox_class_zst_drop() { cbox_class::<Zd>(|| Zd, true); kani::cover!(true, "end"); }
#[kani::proof] fn p_cbox_class_big() { cbox_class::<Pbig>(|| Pbig([1; 24]), false); kani::cover!(true, "end"); }
#[kani::proof] fn p_cbox_class_aligned() { cbox_class::<Pal>(|| Pal { v: 1, heap: Box::new(1) }, true); kani::cover!(true, "end"); }
#[kani::proof]
fn p_cbox_zst() {
    let b = CBox::from(Zd);
    let end: bool = kani::any();
    if end { drop(b); } else { let z = unsafe { b.into_inner() }; assert!(drops() == 0); drop(z); }
    assert!(drops() == 1, "C06 zero-sized payload dropped exactly once");
}
#[kani::proof]
fn p_cbox_stored_fn() {
    // the value is released through the function stored in the box, exactly once
    static mut CALLS: u32 = 0;
    unsafe extern "C" fn rec(this: &mut D) { CALLS += 1; cglue_drop_box::<D>(this) }
    let v: u32 = kani::any();
    let mut b: CBox<D> = CBox::from(D::new(v));
    let ptr: *mut D = &mut *b as *mut D;
    core::mem::forget(b);
    let custom = CBox::<D> { instance: unsafe { &mut *ptr }, drop_fn: Some(rec) };
    drop(custom);
    unsafe { assert!(CALLS == 1, "C06 drop goes through the stored drop function exactly once") };
    assert!(drops() == 1);
    let mut other = D::new(v);
    let husk = CBox::<D> { instance: &mut other, drop_fn: None };
    drop(husk);
    assert!(drops() == 1, "C06 a box without drop function releases nothing");
    drop(other);
}
//@ prefix=p_cslicebox kind=property clause=CSliceBox (empty and non-empty boxed slices): every element dropped exactly once, buffer freed with its layout
#[kani::proof]
#[kani::unwind(5)]
fn p_cslicebox_lifecycle() {
    let n: usize = if kani::any() { 0 } else { 3 };
    let mut v: Vec<D> = Vec::new();
    let mut i = 0;
    while i < n { v.push(D::new(i as u32)); i += 1; }
    let mut sb = CSliceBox::from(v.into_boxed_slice());
    assert!(sb.len() == n, "C06 slice box derefs to its slice");
    if n > 0 { assert!(sb[2].v == 2 && sb[2].ok()); sb[1].v = 9; *sb[1].heap = !9; }
    assert!(drops() == 0);
    if kani::any() { drop(sb); } else { let o = sb.into_opaque(); assert!(drops() == 0, "C06 into_opaque drops nothing"); drop(o); }
    assert!(drops() as usize == n, "C06 every element dropped exactly once");
    kani::cover!(n == 0, "empty");
    kani::cover!(n == 3, "non-empty");
}
#[kani::proof]
#[kani::unwind(6)]
fn p_cslicebox_zst_elems() {
    // zero-sized elements WITH a destructor: each must still be destroyed exactly once
    let n: usize = if kani::any() { 0 } else { 4 };
    let mut v: Vec<Zd> = Vec::new();
    let mut i = 0;
    while i < n { v.push(Zd); i += 1; }
    let sb = CSliceBox::from(v.into_boxed_slice());
    assert!(sb.len() == n && drops() == 0);
    if kani::any() { drop(sb); } else { drop(sb.into_opaque()); }
    assert!(drops() as usize == n, "C06 every zero-sized element with a destructor is destroyed exactly once");
    kani::cover!(n == 4, "non-empty");
}
//@ prefix=canary kind=canary clause=vacuity canary
#[kani::proof]
fn canary_c06_lib() {
    let b = CBox::from(D::new(3));
    let d = unsafe { b.into_inner() };
    assert!(drops() == 1, "canary: deliberately false");
    drop(d);
}

// C10 — CArc / CArcSome behave as Arc / Option<Arc>  (harness contracts, loop-free)
//
// Child module of cglue::arc (hook H2) so private fields and c_clone/c_drop are nameable.
// Abstract state: strong count of one std Arc allocation, observed through a retained
// `keep: Arc<_>`; DROPS counts payload drops.  Invariant I: strong == live non-empty
// handles + retained std Arcs; DROPS == 0 while strong >= 1.
use super::*;
use core::mem::size_of;
use std::boxed::Box;

static mut DROPS: u32 = 0;
fn drops() -> u32 {
    unsafe { DROPS }
}

/// heap-owning payload with a drop counter
struct D {
    v: u32,
    heap: Box<u8>,
}
impl D {
    fn new(v: u32) -> Self {
        D { v, heap: Box::new(v as u8) }
    }
}
impl Drop for D {
    fn drop(&mut self) {
        unsafe { DROPS += 1 };
    }
}

/// Arbitrary I-state: a CArc over a fresh allocation plus 1..=3 retained std Arcs.
/// Returns (handle, keep, expected strong count).
fn any_state(v: u32) -> (CArc<D>, Arc<D>, Option<Arc<D>>, Option<Arc<D>>, usize) {
    let arc = Arc::new(D::new(v));
    let keep = arc.clone();
    let e1 = if kani::any() { Some(arc.clone()) } else { None };
    let e2 = if kani::any() { Some(arc.clone()) } else { None };
    let n = 2 + e1.is_some() as usize + e2.is_some() as usize;
    let c = CArc::<D>::from(arc);
    assert!(Arc::strong_count(&keep) == n, "C10 from(Arc) takes over exactly the caller's count");
    (c, keep, e1, e2, n)
}

fn words3<T>(t: &T) -> [usize; 3] {
    assert!(size_of::<T>() == 3 * size_of::<usize>());
    unsafe { core::ptr::read(t as *const T as *const [usize; 3]) }
}

//@ prefix=p_from_value kind=property clause=CArc::from(value): handle is non-empty, dereferences to the value, value dropped exactly when the only handle goes away
#[kani::proof]
fn p_from_value() {
    let v: u32 = kani::any();
    let c = CArc::<D>::from(D::new(v));
    assert!(c.as_ref().is_some(), "C10 from(value) non-empty");
    assert!(c.as_ref().unwrap().v == v, "C10 from(value) derefs to the value");
    assert!(c.clone_fn.is_some() && c.drop_fn.is_some(), "C10 non-empty handle carries both functions");
    assert!(drops() == 0, "C10 value alive while a handle exists");
    drop(c);
    assert!(drops() == 1, "C10 value dropped exactly when the last handle goes away");
    kani::cover!(true, "p_from_value reaches end");
}

//@ prefix=p_from_value_some kind=property clause=CArcSome::from(value): same as above for the non-optional form
#[kani::proof]
fn p_from_value_some() {
    let v: u32 = kani::any();
    let c = CArcSome::<D>::from(D::new(v));
    assert!(c.v == v && c.as_ref().v == v, "C10 CArcSome deref/as_ref give the value");
    assert!(drops() == 0, "C10 value alive while a handle exists");
    drop(c);
    assert!(drops() == 1, "C10 value dropped exactly when the last handle goes away");
    kani::cover!(true, "p_from_value_some reaches end");
}

//@ prefix=p_from_arc kind=property clause=from(Arc)/from(Option<Arc>): strong count unchanged by conversion, same address, drop of handle decrements by one
#[kani::proof]
fn p_from_arc() {
    let v: u32 = kani::any();
    let arc = Arc::new(D::new(v));
    let keep = arc.clone();
    let addr = Arc::as_ptr(&arc);
    let c = CArc::<D>::from(arc);
    assert!(Arc::strong_count(&keep) == 2, "C10 from(Arc) count unchanged");
    assert!(core::ptr::eq(*c.as_ref().as_ref().unwrap() as *const D, addr), "C10 from(Arc) same address");
    drop(c);
    assert!(Arc::strong_count(&keep) == 1, "C10 drop decrements by one");
    assert!(drops() == 0, "C10 value alive while keep exists");
    drop(keep);
    assert!(drops() == 1, "C10 value dropped with the last handle");
    kani::cover!(true, "p_from_arc reaches end");
}

#[kani::proof]
fn p_from_arc_some() {
    let v: u32 = kani::any();
    let arc = Arc::new(D::new(v));
    let keep = arc.clone();
    let addr = Arc::as_ptr(&arc);
    let c = CArcSome::<D>::from(arc);
    assert!(Arc::strong_count(&keep) == 2, "C10 CArcSome::from(Arc) count unchanged");
    assert!(core::ptr::eq(c.as_ref() as *const D, addr), "C10 CArcSome::from(Arc) same address");
    assert!(core::ptr::eq(&*c as *const D, addr), "C10 CArcSome deref same address");
    drop(c);
    assert!(Arc::strong_count(&keep) == 1, "C10 drop decrements by one");
    assert!(drops() == 0);
    kani::cover!(true, "p_from_arc_some reaches end");
}

#[kani::proof]
fn p_from_arc_option() {
    let v: u32 = kani::any();
    let arc = Arc::new(D::new(v));
    let keep = arc.clone();
    let some: bool = kani::any();
    let c: CArc<D> = if some { CArc::<D>::from(Some(arc)) } else { drop(arc); CArc::from(None::<Arc<D>>) };
    if some {
        assert!(Arc::strong_count(&keep) == 2, "C10 from(Some(Arc)) count unchanged");
        assert!(c.as_ref().unwrap().v == v, "C10 from(Some(Arc)) derefs to value");
    } else {
        assert!(Arc::strong_count(&keep) == 1);
        assert!(c.instance.is_none() && c.clone_fn.is_none() && c.drop_fn.is_none(), "C10 from(None) is the empty handle");
    }
    drop(c);
    assert!(Arc::strong_count(&keep) == 1, "C10 after drop only keep remains");
    assert!(drops() == 0);
    kani::cover!(some, "some branch");
    kani::cover!(!some, "none branch");
}

//@ prefix=p_clone kind=property clause=clone: strong count +1, same address, same function triple; drops in either order each decrement by one; value dropped exactly at the last
#[kani::proof]
fn p_clone() {
    let v: u32 = kani::any();
    let (c, keep, e1, e2, n) = any_state(v);
    let c2 = c.clone();
    assert!(Arc::strong_count(&keep) == n + 1, "C10 clone increments strong count by one");
    assert!(words3(&c) == words3(&c2), "C10 clone has same address and same function triple");
    assert!(c2.as_ref().unwrap().v == v, "C10 clone dereferences to same value");
    if kani::any() {
        drop(c);
        assert!(Arc::strong_count(&keep) == n, "C10 drop decrements by one");
        assert!(c2.as_ref().unwrap().v == v, "C10 surviving handle still valid");
        drop(c2);
    } else {
        drop(c2);
        assert!(Arc::strong_count(&keep) == n, "C10 drop decrements by one");
        assert!(c.as_ref().unwrap().v == v, "C10 surviving handle still valid");
        drop(c);
    }
    assert!(Arc::strong_count(&keep) == n - 1, "C10 both drops decrement");
    drop(e1);
    drop(e2);
    assert!(Arc::strong_count(&keep) == 1);
    assert!(drops() == 0, "C10 value alive while any handle exists");
    drop(keep);
    assert!(drops() == 1, "C10 value dropped exactly once at the last handle");
    kani::cover!(true, "p_clone reaches end");
}

#[kani::proof]
fn p_clone_from() {
    // assignment by clone_from for every combination of empty / non-empty target and source
    let v: u32 = kani::any();
    let (c, keep, e1, e2, n) = any_state(v);
    let other = Arc::new(D::new(v ^ 1));
    let okeep = other.clone();
    let dst_kind: u8 = kani::any();
    kani::assume(dst_kind < 3);
    let src_empty: bool = kani::any();
    let mut dst: CArc<D> = match dst_kind { 0 => CArc::default(), 1 => CArc::from(other.clone()), _ => c.clone() };
    let src: CArc<D> = if src_empty { CArc::default() } else { c.clone() };
    let n_src = !src_empty as usize;
    dst.clone_from(&src);
    assert!(words3(&dst) == words3(&src), "C10 clone_from makes the target a handle to the source's allocation with the source's function pair (or empty)");
    assert!(Arc::strong_count(&keep) == n + 2 * n_src, "C10 after clone_from the count of the source's allocation is live handles + retained Arcs (the target's old handle was released, a new one taken)");
    assert!(Arc::strong_count(&okeep) == 2, "C10 clone_from released the target's old handle to another allocation exactly once");
    drop(dst);
    drop(src);
    assert!(Arc::strong_count(&keep) == n, "C10 dropping target and source releases exactly their handles");
    drop(c); drop(e1); drop(e2); drop(other);
    assert!(drops() == 0, "C10 values alive while a retained Arc exists");
    drop(keep); drop(okeep);
    assert!(drops() == 2, "C10 both values dropped exactly once");
    kani::cover!(dst_kind == 1 && src_empty, "non-empty target, empty source");
    kani::cover!(dst_kind == 2 && !src_empty, "same allocation");
    kani::cover!(dst_kind == 0 && !src_empty, "empty target");
}

#[kani::proof]
fn p_clone_some() {
    let v: u32 = kani::any();
    let arc = Arc::new(D::new(v));
    let keep = arc.clone();
    let c = CArcSome::<D>::from(arc);
    let c2 = c.clone();
    assert!(Arc::strong_count(&keep) == 3, "C10 CArcSome clone increments strong count by one");
    assert!(words3(&c) == words3(&c2), "C10 CArcSome clone same address and functions");
    drop(c);
    assert!(Arc::strong_count(&keep) == 2);
    assert!(c2.v == v);
    drop(c2);
    assert!(Arc::strong_count(&keep) == 1);
    assert!(drops() == 0);
    kani::cover!(true, "p_clone_some reaches end");
}

/// over-aligned payload: the distance between the strong count and the value depends on the
/// payload's alignment, so clone/drop functions instantiated for another type would miss the count
#[repr(align(64))]
struct A64 { v: u32 }
#[kani::proof]
fn p_clone_overaligned() {
    let v: u32 = kani::any();
    let arc = Arc::new(A64 { v });
    let keep = arc.clone();
    let c = CArc::<A64>::from(arc);
    let c2 = c.clone();
    assert!(Arc::strong_count(&keep) == 3, "C10 clone increments the strong count by one (over-aligned payload)");
    let o = c2.into_opaque();
    let o2 = o.clone();
    assert!(Arc::strong_count(&keep) == 4, "C10 opaque clone increments the strong count by one (over-aligned payload)");
    drop(o);
    drop(o2);
    assert!(Arc::strong_count(&keep) == 2 && c.as_ref().unwrap().v == v, "C10 drops decrement by one each (over-aligned payload)");
    let s = CArcSome::<A64>::from(keep.clone());
    let s2 = s.clone();
    assert!(Arc::strong_count(&keep) == 4, "C10 CArcSome clone increments (over-aligned payload)");
    drop(s);
    drop(s2);
    drop(c);
    assert!(Arc::strong_count(&keep) == 1, "C10 all handles released");
    kani::cover!(true, "end");
}
/// payload classes: zero-sized with destructor, plain without destructor, large, over-aligned with destructor
struct Pz;
impl Drop for Pz { fn drop(&mut self) { unsafe { DROPS += 1 } } }
struct Pbig([u64; 24]);
#[repr(align(32))]
struct Pal { v: u32, heap: Box<u8> }
impl Drop for Pal { fn drop(&mut self) { unsafe { DROPS += 1 } } }
fn lifecycle<T: 'static>(mk: fn() -> T, counted: bool) {
    let arc = Arc::new(mk());
    let keep = arc.clone();
    let c = CArc::<T>::from(arc);
    let c2 = c.clone();
    assert!(Arc::strong_count(&keep) == 3, "C10 clone increments the strong count by one (any payload class)");
    let mut c3 = c2.into_opaque();
    let t = c3.take();
    drop(c3);
    assert!(Arc::strong_count(&keep) == 3, "C10 take / dropping the emptied handle leave the count unchanged (any payload class)");
    let s = t.transpose().unwrap();
    let s2 = s.clone();
    assert!(Arc::strong_count(&keep) == 4, "C10 CArcSome clone increments (any payload class)");
    drop(s);
    drop(s2);
    assert!(Arc::strong_count(&keep) == 2, "C10 drops decrement by one each (any payload class)");
    let back = unsafe { c.transpose().unwrap().into_arc() };
    assert!(Arc::strong_count(&keep) == 2 && Arc::ptr_eq(&back, &keep), "C10 into_arc returns the same allocation without changing the count (any payload class)");
    drop(back);
    assert!(drops() == 0, "C10 value alive while a handle exists (any payload class)");
    drop(keep);
    assert!(drops() == counted as u32, "C10 value dropped exactly when the last handle goes away (any payload class)");
    let solo = CArcSome::<T>::from(mk());
    drop(solo.transpose().into_opaque());
    assert!(drops() == 2 * counted as u32, "C10 a value owned only through an opaque handle is dropped exactly once (any payload class)");
    // CArc built directly from a VALUE: it is an Arc like any other (shared, counted, convertible back)
    let direct = CArc::<T>::from(mk());
    assert!(drops() == 2 * counted as u32, "C10 CArc::from(value) keeps the value alive (any payload class)");
    let d2 = direct.clone();
    drop(direct);
    assert!(drops() == 2 * counted as u32, "C10 a clone keeps the value alive (any payload class)");
    let arc_back = unsafe { d2.transpose().unwrap().into_arc() };
    assert!(Arc::strong_count(&arc_back) == 1, "C10 a handle built from a value converts back into the one Arc that owns it (any payload class)");
    drop(arc_back);
    assert!(drops() == 3 * counted as u32, "C10 the value is dropped exactly when its last handle goes away (any payload class)");
}
#[kani::proof] fn p_class_zst_drop() { lifecycle::<Pz>(|| Pz, true); kani::cover!(true, "end"); }
#[kani::proof] fn p_class_plain() { lifecycle::<u64>(|| 7, false); kani::cover!(true, "end"); }
#[kani::proof] fn p_class_big() { lifecycle::<Pbig>(|| Pbig([3; 24]), false); kani::cover!(true, "end"); }
#[kani::proof] fn p_class_aligned_drop() { lifecycle::<Pal>(|| Pal { v: 1, heap: Box::new(2) }, true); kani::cover!(true, "end"); }
//@ prefix=p_class kind=property clause=the whole handle lifecycle (from, clone, into_opaque, take, transpose, into_arc, drop) keeps strong count == live handles and drops the value exactly at the last handle for every payload class: zero-sized with destructor, plain, large, over-aligned with destructor
//@ prefix=p_take kind=property clause=take: count unchanged, source becomes the empty handle whose drop calls nothing, result dereferences to the same value
#[kani::proof]
fn p_take() {
    let v: u32 = kani::any();
    let (mut c, keep, _e1, _e2, n) = any_state(v);
    let w = words3(&c);
    let t = c.take();
    assert!(Arc::strong_count(&keep) == n, "C10 take leaves count unchanged");
    assert!(c.instance.is_none() && c.clone_fn.is_none() && c.drop_fn.is_none(), "C10 take leaves the empty handle");
    assert!(words3(&t) == w, "C10 take moves the same triple");
    drop(c);
    assert!(Arc::strong_count(&keep) == n, "C10 dropping the emptied source is a no-op");
    assert!(t.as_ref().unwrap().v == v, "C10 taken handle still valid");
    drop(t);
    assert!(Arc::strong_count(&keep) == n - 1, "C10 dropping taken handle decrements");
    assert!(drops() == 0);
    kani::cover!(true, "p_take reaches end");
}

//@ prefix=p_transpose kind=property clause=transpose both ways: count unchanged, same address; empty transposes to None
#[kani::proof]
fn p_transpose() {
    let v: u32 = kani::any();
    let (c, keep, _e1, _e2, n) = any_state(v);
    let w = words3(&c);
    let s = c.transpose();
    assert!(s.is_some(), "C10 non-empty transposes to Some");
    assert!(Arc::strong_count(&keep) == n, "C10 transpose leaves count unchanged");
    let s = s.unwrap();
    assert!(words3(&s) == w, "C10 transpose keeps address and functions");
    assert!(s.v == v);
    let back = s.transpose();
    assert!(Arc::strong_count(&keep) == n, "C10 transpose back leaves count unchanged");
    assert!(words3(&back) == w, "C10 transpose back keeps address and functions");
    drop(back);
    assert!(Arc::strong_count(&keep) == n - 1, "C10 drop after round trip decrements once");
    assert!(drops() == 0);
    kani::cover!(true, "p_transpose reaches end");
}

#[kani::proof]
fn p_transpose_views() {
    let v: u32 = kani::any();
    let (mut c, keep, _e1, _e2, n) = any_state(v);
    let w = words3(&c);
    {
        let r: Option<&CArcSome<D>> = (&c).into();
        let r = r.unwrap();
        assert!(core::ptr::eq(r as *const _ as *const u8, &c as *const _ as *const u8), "C10 view aliases the handle");
        assert!(words3(r) == w, "C10 &view reads the same triple");
        assert!(r.v == v);
    }
    {
        let r: Option<&mut CArcSome<D>> = (&mut c).into();
        let r = r.unwrap();
        assert!(words3(r) == w, "C10 &mut view reads the same triple");
    }
    assert!(Arc::strong_count(&keep) == n, "C10 views do not touch the count");
    let mut e = CArc::<D>::default();
    assert!(<Option<&CArcSome<D>>>::from(&e).is_none(), "C10 empty has no view");
    assert!(<Option<&mut CArcSome<D>>>::from(&mut e).is_none(), "C10 empty has no mut view");
    kani::cover!(true, "p_transpose_views reaches end");
}

//@ prefix=p_into_opaque kind=property clause=into_opaque: count unchanged, all words preserved; dropping the opaque handle releases exactly one count and the value at the end
#[kani::proof]
fn p_into_opaque() {
    let v: u32 = kani::any();
    let (c, keep, e1, e2, n) = any_state(v);
    let w = words3(&c);
    let o: CArc<c_void> = c.into_opaque();
    assert!(words3(&o) == w, "C10 into_opaque preserves all words");
    assert!(Arc::strong_count(&keep) == n, "C10 into_opaque leaves count unchanged");
    let o2 = o.clone();
    assert!(Arc::strong_count(&keep) == n + 1, "C10 opaque clone increments");
    assert!(words3(&o2) == w, "C10 a clone of an opaque handle carries the same instance and the same (creating module's) function pair");
    drop(o);
    drop(o2);
    assert!(Arc::strong_count(&keep) == n - 1, "C10 opaque drops decrement");
    drop(e1);
    drop(e2);
    assert!(drops() == 0);
    drop(keep);
    assert!(drops() == 1);
    kani::cover!(true, "p_into_opaque reaches end");
}

#[kani::proof]
fn p_into_opaque_clone_is_last() {
    // the CLONE of a type-erased handle is the last holder: the value is destroyed exactly then,
    // through the function stored by the creating module (which knows the real type)
    let v: u32 = kani::any();
    let some: bool = kani::any();
    if some {
        let o: CArcSome<c_void> = CArcSome::<D>::from(D::new(v)).into_opaque();
        let o2 = o.clone();
        assert!(words3(&o2) == words3(&o), "C10 a clone of an opaque CArcSome carries the same words");
        drop(o);
        assert!(drops() == 0, "C10 value alive while the clone lives");
        drop(o2);
    } else {
        let o: CArc<c_void> = CArc::<D>::from(D::new(v)).into_opaque();
        let o2 = o.clone();
        drop(o);
        assert!(drops() == 0, "C10 value alive while the clone lives");
        drop(o2);
    }
    assert!(drops() == 1, "C10 the value is destroyed exactly when the last (cloned, type-erased) handle goes");
    kani::cover!(some, "CArcSome");
    kani::cover!(!some, "CArc");
}

#[kani::proof]
fn p_into_opaque_some() {
    let v: u32 = kani::any();
    let arc = Arc::new(D::new(v));
    let keep = arc.clone();
    let c = CArcSome::<D>::from(arc);
    let w = words3(&c);
    let o: CArcSome<c_void> = c.into_opaque();
    assert!(words3(&o) == w, "C10 CArcSome into_opaque preserves all words");
    assert!(Arc::strong_count(&keep) == 2);
    drop(o);
    assert!(Arc::strong_count(&keep) == 1, "C10 opaque CArcSome drop decrements");
    drop(keep);
    assert!(drops() == 1, "C10 last handle gone: value dropped via the opaque handle's stored function");
    kani::cover!(true, "p_into_opaque_some reaches end");
}

//@ prefix=p_into_arc kind=property clause=into_arc: returns the same allocation without changing the count
#[kani::proof]
fn p_into_arc() {
    let v: u32 = kani::any();
    let arc = Arc::new(D::new(v));
    let keep = arc.clone();
    let addr = Arc::as_ptr(&arc);
    let c = CArcSome::<D>::from(arc);
    let a = unsafe { c.into_arc() };
    assert!(Arc::strong_count(&keep) == 2, "C10 into_arc leaves count unchanged");
    assert!(core::ptr::eq(Arc::as_ptr(&a), addr), "C10 into_arc same allocation");
    drop(a);
    assert!(Arc::strong_count(&keep) == 1);
    assert!(drops() == 0);
    kani::cover!(true, "p_into_arc reaches end");
}

static mut REC_CLONE: u32 = 0;
static mut REC_DROP: u32 = 0;
static mut REC_ARG: usize = 0;
unsafe extern "C" fn rec_clone(p: Option<&'static u64>) -> Option<&'static u64> {
    REC_CLONE += 1;
    REC_ARG = p.map(|r| r as *const u64 as usize).unwrap_or(0);
    p
}
unsafe extern "C" fn rec_drop(p: Option<&u64>) {
    REC_DROP += 1;
    REC_ARG = p.map(|r| r as *const u64 as usize).unwrap_or(0);
}
static NOT_AN_ARC: u64 = 77;

//@ prefix=p_foreign kind=property clause=clone/drop run only the functions stored in the handle (the creating module's), exactly once each, with the stored instance
#[kani::proof]
fn p_foreign_some() {
    // instance is NOT an Arc allocation: any direct Arc::from_raw on it would fail Kani's pointer checks
    let c = CArcSome { instance: &NOT_AN_ARC, clone_fn: rec_clone, drop_fn: Some(rec_drop) };
    let c2 = c.clone();
    unsafe {
        assert!(REC_CLONE == 1 && REC_DROP == 0, "C10 clone invokes stored clone_fn exactly once");
        assert!(REC_ARG == &NOT_AN_ARC as *const u64 as usize, "C10 clone_fn gets the stored instance");
    }
    assert!(*c2 == 77);
    drop(c);
    unsafe { assert!(REC_DROP == 1, "C10 drop invokes stored drop_fn exactly once") };
    drop(c2);
    unsafe {
        assert!(REC_DROP == 2 && REC_CLONE == 1, "C10 second handle's drop invokes drop_fn once more");
        assert!(REC_ARG == &NOT_AN_ARC as *const u64 as usize, "C10 drop_fn gets the stored instance");
    }
    kani::cover!(true, "p_foreign_some reaches end");
}

#[kani::proof]
fn p_foreign_opt() {
    let c = CArc { instance: Some(&NOT_AN_ARC), clone_fn: Some(rec_clone), drop_fn: Some(rec_drop) };
    let c2 = c.clone();
    unsafe { assert!(REC_CLONE == 1 && REC_DROP == 0, "C10 CArc clone invokes stored clone_fn exactly once") };
    let mut c3 = c2;
    let t = c3.take();
    drop(c3);
    unsafe { assert!(REC_DROP == 0, "C10 dropping emptied handle calls nothing") };
    let s = t.transpose().unwrap();
    let o = s.transpose().into_opaque();
    unsafe { assert!(REC_DROP == 0 && REC_CLONE == 1, "C10 conversions call nothing") };
    drop(o);
    unsafe { assert!(REC_DROP == 1, "C10 opaque drop invokes the stored drop_fn once") };
    drop(c);
    unsafe { assert!(REC_DROP == 2 && REC_CLONE == 1) };
    kani::cover!(true, "p_foreign_opt reaches end");
}

#[kani::proof]
fn p_foreign_borrowed_no_drop_fn() {
    // a BORROWED handle (no release function stored — the layout allows it and the library's own
    // views rely on it): conversions and clones keep it that way; dropping any of them releases nothing
    let some = CArcSome { instance: &NOT_AN_ARC, clone_fn: rec_clone, drop_fn: None };
    let c: CArc<u64> = some.transpose();
    assert!(c.drop_fn.is_none() && c.clone_fn == Some(rec_clone as unsafe extern "C" fn(Option<&'static u64>) -> Option<&'static u64>), "C10 transposing a borrowed handle keeps its (absent) release function");
    let c2 = c.clone();
    unsafe { assert!(REC_CLONE == 1, "C10 cloning goes through the stored clone function") };
    let back = c.transpose().unwrap();
    assert!(back.drop_fn.is_none(), "C10 transposing back keeps the (absent) release function");
    drop(back);
    drop(c2);
    unsafe { assert!(REC_DROP == 0, "C10 handles without a release function release nothing (no other function is substituted)") };
    kani::cover!(true, "end");
}

static OTHER_HANDLE: u64 = 78;
unsafe extern "C" fn rec_clone_other(p: Option<&'static u64>) -> Option<&'static u64> {
    REC_CLONE += 1;
    REC_ARG = p.map(|r| r as *const u64 as usize).unwrap_or(0);
    Some(&OTHER_HANDLE)
}
#[kani::proof]
fn p_foreign_clone_result_used() {
    // a creating module's clone function may hand back a DIFFERENT handle: the clone must carry it
    let c = CArcSome { instance: &NOT_AN_ARC, clone_fn: rec_clone_other, drop_fn: Some(rec_drop) };
    let c2 = c.clone();
    assert!(core::ptr::eq(c2.instance, &OTHER_HANDLE) && *c2 == 78, "C10 the clone holds the handle returned by the stored clone function");
    assert!(core::ptr::eq(c.instance, &NOT_AN_ARC), "C10 the source keeps its own handle");
    drop(c2);
    unsafe { assert!(REC_DROP == 1 && REC_ARG == &OTHER_HANDLE as *const u64 as usize, "C10 dropping the clone releases the handle it was given") };
    let o = CArc { instance: Some(&NOT_AN_ARC), clone_fn: Some(rec_clone_other), drop_fn: Some(rec_drop) };
    let o2 = o.clone();
    assert!(core::ptr::eq(*o2.as_ref().as_ref().unwrap(), &OTHER_HANDLE), "C10 CArc clone holds the returned handle");
    drop(o2); drop(o); drop(c);
    kani::cover!(true, "end");
}
//@ prefix=p_empty kind=property clause=empty CArc: clones to empty, drops as a no-op, as_ref is None, transposes to None
#[kani::proof]
fn p_empty() {
    let e = CArc::<D>::default();
    assert!(e.instance.is_none() && e.clone_fn.is_none() && e.drop_fn.is_none(), "C10 default is empty");
    assert!(e.as_ref().is_none(), "C10 empty as_ref is None");
    let e2 = e.clone();
    assert!(e2.instance.is_none() && e2.clone_fn.is_none() && e2.drop_fn.is_none(), "C10 empty clones to empty");
    let o = e2.into_opaque();
    assert!(o.as_ref().is_none(), "C10 empty stays empty when opaque");
    drop(o);
    assert!(e.transpose().is_none(), "C10 empty transposes to None");
    assert!(drops() == 0);
    // an empty handle that still carries functions must not call them
    let h = CArc::<u64> { instance: None, clone_fn: Some(rec_clone), drop_fn: Some(rec_drop) };
    let h2 = h.clone();
    drop(h);
    drop(h2);
    unsafe { assert!(REC_CLONE == 0 && REC_DROP == 0, "C10 empty handle: clone/drop call nothing") };
    kani::cover!(true, "p_empty reaches end");
}

//@ prefix=p_layout kind=property clause=CArc and CArcSome have the same size and field order (the in-place reinterpretation in the views is sound)
#[kani::proof]
fn p_layout() {
    assert!(size_of::<CArc<D>>() == size_of::<CArcSome<D>>(), "C10 CArc/CArcSome same size");
    assert!(core::mem::align_of::<CArc<D>>() == core::mem::align_of::<CArcSome<D>>());
    let v: u32 = kani::any();
    let c = CArcSome::<D>::from(D::new(v));
    let base = &c as *const _ as usize;
    assert!(&c.instance as *const _ as usize - base == 0);
    assert!(&c.clone_fn as *const _ as usize - base == size_of::<usize>());
    assert!(&c.drop_fn as *const _ as usize - base == 2 * size_of::<usize>());
    let o = c.transpose();
    let base = &o as *const _ as usize;
    assert!(&o.instance as *const _ as usize - base == 0);
    assert!(&o.clone_fn as *const _ as usize - base == size_of::<usize>());
    assert!(&o.drop_fn as *const _ as usize - base == 2 * size_of::<usize>());
    kani::cover!(true, "p_layout reaches end");
}

//@ prefix=canary kind=canary clause=vacuity canary: a false count claim behind the same arbitrary state must fail
#[kani::proof]
fn canary_state() {
    let v: u32 = kani::any();
    let (c, keep, _e1, _e2, n) = any_state(v);
    let _c2 = c.clone();
    assert!(Arc::strong_count(&keep) == n, "canary: deliberately false");
}

//@thorough-begin
/// bounded cross-check: all op sequences of length 4 over a pool of two handle slots
//@ prefix=b_history kind=property clause=bounded histories (5 symbolic ops over 2 slots): strong count equals number of live non-empty handles, value dropped exactly at the last
#[kani::proof]
#[kani::unwind(7)]
fn b_history() {
    let v: u32 = kani::any();
    let arc = Arc::new(D::new(v));
    let keep = arc.clone();
    let mut a: CArc<D> = CArc::<D>::from(arc);
    let mut b: CArc<D> = CArc::default();
    let mut live: usize = 1;
    let mut i = 0;
    while i < 5 {
        let op: u8 = kani::any();
        kani::assume(op < 7);
        match op {
            0 => {
                let was = b.as_ref().is_some();
                let had = a.as_ref().is_some();
                b = a.clone();
                if was { live -= 1; }
                if had { live += 1; }
            }
            1 => {
                let was = a.as_ref().is_some();
                a = b.take();
                if was { live -= 1; }
            }
            2 => {
                a = a.transpose().map(|s| s.transpose()).unwrap_or_default();
            }
            3 => {
                let was = b.as_ref().is_some();
                b = CArc::default();
                if was { live -= 1; }
            }
            4 => {
                core::mem::swap(&mut a, &mut b);
            }
            5 => {
                let was = a.as_ref().is_some();
                let had = b.as_ref().is_some();
                a = b.clone();
                if was { live -= 1; }
                if had { live += 1; }
            }
            _ => {
                if let Some(s) = a.take().transpose() {
                    let arc = unsafe { s.into_arc() };
                    a = CArc::<D>::from(Some(arc));
                }
            }
        }
        assert!(Arc::strong_count(&keep) == live + 1, "C10 history: strong count equals live handles");
        assert!(drops() == 0, "C10 history: value alive");
        i += 1;
    }
    drop(a);
    drop(b);
    assert!(Arc::strong_count(&keep) == 1, "C10 history: all handles released");
    drop(keep);
    assert!(drops() == 1, "C10 history: value dropped exactly once");
    kani::cover!(true, "b_history reaches end");
}
//@thorough-end

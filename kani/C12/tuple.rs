// C12 — CTup1..4 <-> tuples: every field in place, payload moved exactly once.
use super::{CTup1, CTup2, CTup3, CTup4};
use std::boxed::Box;

static mut DROPS: u32 = 0;
fn drops() -> u32 { unsafe { DROPS } }
struct D { v: u64, heap: Box<u64> }
impl D { fn new(v: u64) -> Self { D { v, heap: Box::new(!v) } } fn ok(&self) -> bool { *self.heap == !self.v } }
impl Drop for D { fn drop(&mut self) { unsafe { DROPS += 1 } } }

//@ prefix=p_tup kind=property clause=tuple <-> CTupN (From both ways, into_tuple): each field keeps its position and value (same-typed fields, so a permutation would type-check), payloads moved exactly once
#[kani::proof]
fn p_tup_copy() {
    let (a, b, c, d): (u64, u64, u64, u64) = kani::any();
    let t1: CTup1<u64> = (a,).into();
    assert!(t1.0 == a);
    let r1: (u64,) = t1.into();
    assert!(r1 == (a,) && t1.into_tuple() == (a,), "C12 CTup1 round trip");
    let t2: CTup2<u64, u64> = (a, b).into();
    assert!(t2.0 == a && t2.1 == b, "C12 CTup2 fields in place");
    let r2: (u64, u64) = t2.into();
    assert!(r2 == (a, b) && t2.into_tuple() == (a, b), "C12 CTup2 round trip");
    let t3: CTup3<u64, u64, u64> = (a, b, c).into();
    assert!(t3.0 == a && t3.1 == b && t3.2 == c, "C12 CTup3 fields in place");
    let r3: (u64, u64, u64) = t3.into();
    assert!(r3 == (a, b, c) && t3.into_tuple() == (a, b, c), "C12 CTup3 round trip");
    let t4: CTup4<u64, u64, u64, u64> = (a, b, c, d).into();
    assert!(t4.0 == a && t4.1 == b && t4.2 == c && t4.3 == d, "C12 CTup4 fields in place");
    let r4: (u64, u64, u64, u64) = t4.into();
    assert!(r4 == (a, b, c, d) && t4.into_tuple() == (a, b, c, d), "C12 CTup4 round trip");
    kani::cover!(a != b && b != c && c != d && a != c && a != d && b != d, "distinct fields");
}
#[kani::proof]
fn p_tup_move() {
    let (a, b, c, d): (u64, u64, u64, u64) = kani::any();
    let t: CTup4<D, D, D, D> = (D::new(a), D::new(b), D::new(c), D::new(d)).into();
    assert!(t.0.v == a && t.1.v == b && t.2.v == c && t.3.v == d, "C12 CTup4 fields in place");
    assert!(drops() == 0, "C12 conversion moves without dropping");
    let r: (D, D, D, D) = t.into();
    assert!(r.0.v == a && r.1.v == b && r.2.v == c && r.3.v == d, "C12 back-conversion fields in place");
    assert!(r.0.ok() && r.1.ok() && r.2.ok() && r.3.ok());
    assert!(drops() == 0, "C12 back-conversion moves without dropping");
    drop(r);
    assert!(drops() == 4, "C12 every payload dropped exactly once");
    let t3: CTup3<D, D, D> = (D::new(a), D::new(b), D::new(c)).into();
    let r3 = t3.into_tuple();
    assert!(r3.0.v == a && r3.1.v == b && r3.2.v == c && drops() == 4, "C12 CTup3 into_tuple");
    let t2: CTup2<D, D> = (D::new(a), D::new(b)).into();
    let r2 = t2.into_tuple();
    assert!(r2.0.v == a && r2.1.v == b && drops() == 4, "C12 CTup2 into_tuple");
    let t1: CTup1<D> = (D::new(a),).into();
    let r1 = t1.into_tuple();
    assert!(r1.0.v == a && drops() == 4, "C12 CTup1 into_tuple");
    drop((r1, r2, r3));
    assert!(drops() == 10, "C12 every payload dropped exactly once");
    kani::cover!(true, "reaches end");
}
#[kani::proof]
fn p_tup_mixed_sizes() {
    // fields of different size and alignment: a Rust tuple may order them differently from the repr(C) struct
    let (a, b, c, d): (u8, u64, u16, u32) = kani::any();
    let t4: CTup4<u8, u64, u16, u32> = (a, b, c, d).into();
    assert!(t4.0 == a && t4.1 == b && t4.2 == c && t4.3 == d, "C12 CTup4 fields in place (mixed sizes)");
    let r4: (u8, u64, u16, u32) = t4.into();
    assert!(r4 == (a, b, c, d) && t4.into_tuple() == (a, b, c, d), "C12 CTup4 round trip (mixed sizes)");
    let t3: CTup3<u32, u64, u32> = (d, b, d ^ 1).into();
    let r3: (u32, u64, u32) = t3.into();
    assert!(r3 == (d, b, d ^ 1), "C12 CTup3 round trip (mixed sizes)");
    let t2: CTup2<u8, u64> = (a, b).into();
    assert!(t2.into_tuple() == (a, b), "C12 CTup2 round trip (mixed sizes)");
    let boxed: CTup3<u8, D, u8> = (a, D::new(b), a ^ 1).into();
    let rb: (u8, D, u8) = boxed.into();
    assert!(rb.0 == a && rb.1.v == b && rb.1.ok() && rb.2 == a ^ 1 && drops() == 0, "C12 heap-owning field between small fields survives the round trip");
    drop(rb);
    assert!(drops() == 1);
    kani::cover!(true, "end");
}
//@ prefix=canary kind=canary clause=vacuity canary
#[kani::proof]
fn canary_tup() {
    let (a, b): (u64, u64) = kani::any();
    let t: CTup2<u64, u64> = (a, b).into();
    assert!(t.0 == b, "canary: deliberately false");
}

// C12 — COption <-> Option lossless, payload moved exactly once (Kani twin of the Verus proof, plus
// unwrap/take which are outside Verus' subset).
use super::COption;
use std::boxed::Box;

static mut DROPS: u32 = 0;
fn drops() -> u32 { unsafe { DROPS } }
struct D { v: u32, heap: Box<u32> }
impl D { fn new(v: u32) -> Self { D { v, heap: Box::new(!v) } } fn ok(&self) -> bool { *self.heap == !self.v } }
impl Drop for D { fn drop(&mut self) { unsafe { DROPS += 1 } } }

fn any_opt() -> (Option<D>, Option<u32>) {
    if kani::any() { let v: u32 = kani::any(); (Some(D::new(v)), Some(v)) } else { (None, None) }
}

//@ prefix=p_opt kind=property clause=Option<T> <-> COption<T>: variant and payload unchanged in both directions, payload moved (never dropped or duplicated); is_some/as_ref/as_mut/unwrap/take/default agree with Option
#[kani::proof]
fn p_opt_roundtrip() {
    let (o, model) = any_opt();
    let c: COption<D> = o.into();
    assert!(c.is_some() == model.is_some(), "C12 From<Option> keeps the variant");
    match (&c, model) {
        (COption::Some(d), Some(v)) => assert!(d.v == v && d.ok(), "C12 From<Option> keeps the payload"),
        (COption::None, None) => {}
        _ => assert!(false, "C12 From<Option> keeps the variant"),
    }
    assert!(c.as_ref().map(|d| d.v) == model, "C12 as_ref agrees");
    assert!(drops() == 0, "C12 conversion moves the payload without dropping");
    let back: Option<D> = c.into();
    assert!(back.as_ref().map(|d| d.v) == model, "C12 From<COption> keeps variant and payload");
    assert!(back.as_ref().map(|d| d.ok()).unwrap_or(true), "C12 payload intact");
    assert!(drops() == 0, "C12 conversion back moves the payload without dropping");
    drop(back);
    assert!(drops() == model.is_some() as u32, "C12 payload dropped exactly once");
    kani::cover!(model.is_some(), "Some");
    kani::cover!(model.is_none(), "None");
}
#[kani::proof]
fn p_opt_methods() {
    let (o, model) = any_opt();
    let mut c: COption<D> = o.into();
    if let Some(d) = c.as_mut() { d.v = d.v.wrapping_add(1); *d.heap = !d.v; }
    let model = model.map(|v| v.wrapping_add(1));
    assert!(c.as_ref().map(|d| d.v) == model, "C12 as_mut gives access to the payload in place");
    let t = c.take();
    assert!(t.as_ref().map(|d| d.v) == model && t.as_ref().map(|d| d.ok()).unwrap_or(true), "C12 take returns the payload");
    assert!(!c.is_some(), "C12 take leaves None");
    assert!(drops() == 0, "C12 take moves without dropping");
    drop(c);
    assert!(drops() == 0, "C12 emptied option owns nothing");
    drop(t);
    assert!(drops() == model.is_some() as u32, "C12 payload dropped exactly once");
    assert!(!COption::<D>::default().is_some(), "C12 default is None");
    let v: u32 = kani::any();
    let u = COption::Some(D::new(v)).unwrap();
    assert!(u.v == v && u.ok(), "C12 unwrap returns the payload");
    kani::cover!(model.is_some(), "Some");
    kani::cover!(model.is_none(), "None");
}
impl Clone for D { fn clone(&self) -> Self { D::new(self.v) } }
#[kani::proof]
fn p_opt_clone() {
    // clone / clone_from (reached through Vec<COption<T>>::clone_from and friends): the result has
    // the source's variant and payload; a replaced payload is dropped exactly once
    let (o, model) = any_opt();
    let (o2, model2) = any_opt();
    let mut dst: COption<D> = o.into();
    let src: COption<D> = o2.into();
    let c = src.clone();
    assert!(c.as_ref().map(|d| d.v) == model2 && c.as_ref().map(|d| d.ok()).unwrap_or(true), "C12 clone keeps variant and payload");
    drop(c);
    assert!(drops() == model2.is_some() as u32, "C12 the clone owns its own payload");
    dst.clone_from(&src);
    assert!(dst.is_some() == model2.is_some() && dst.as_ref().map(|d| d.v) == model2, "C12 clone_from gives the target the source's variant and payload");
    assert!(src.as_ref().map(|d| d.v) == model2, "C12 clone_from leaves the source unchanged");
    assert!(drops() == model2.is_some() as u32 + model.is_some() as u32, "C12 the replaced payload is dropped exactly once");
    drop(dst); drop(src);
    assert!(drops() == 3 * model2.is_some() as u32 + model.is_some() as u32, "C12 every payload dropped exactly once");
    kani::cover!(model.is_some() && model2.is_none(), "Some <- None");
    kani::cover!(model.is_none() && model2.is_some(), "None <- Some");
}
struct Pz;
impl Drop for Pz { fn drop(&mut self) { unsafe { DROPS += 1 } } }
#[repr(align(64))]
struct Pal { v: u32, heap: Box<u8> }
impl Drop for Pal { fn drop(&mut self) { unsafe { DROPS += 1 } } }
struct Pbig([u64; 24]);
fn opt_class<T>(mk: fn() -> T, counted: bool) {
    let some: bool = kani::any();
    let o: Option<T> = if some { Some(mk()) } else { None };
    let c: COption<T> = o.into();
    assert!(c.is_some() == some && c.as_ref().is_some() == some, "C12 From<Option> keeps the variant (any payload class)");
    let mut c = c;
    let t = c.take();
    assert!(t.is_some() == some && !c.is_some() && drops() == 0, "C12 take moves the payload without dropping (any payload class)");
    let back: COption<T> = t.into();
    let o2: Option<T> = back.into();
    assert!(o2.is_some() == some && drops() == 0, "C12 conversions move the payload without dropping (any payload class)");
    drop(o2); drop(c);
    assert!(drops() == (some && counted) as u32, "C12 payload dropped exactly once (any payload class)");
    kani::cover!(some, "some");
}
#[kani::proof] fn p_opt_class_zst_drop() { opt_class::<Pz>(|| Pz, true); }
#[kani::proof] fn p_opt_class_aligned() { opt_class::<Pal>(|| Pal { v: 1, heap: Box::new(2) }, true); }
#[kani::proof] fn p_opt_class_big() { opt_class::<Pbig>(|| Pbig([1; 24]), false); }
//@ prefix=p_opt_unwrap_none kind=panic clause=COption::None.unwrap() panics
#[kani::proof]
#[kani::should_panic]
fn p_opt_unwrap_none() {
    let c: COption<u32> = COption::None;
    let _ = c.unwrap();
    kani::cover!(true, "MUST-NOT-REACH: unwrap of None returned");
}
//@ prefix=canary kind=canary clause=vacuity canary
#[kani::proof]
fn canary_opt() {
    let (o, model) = any_opt();
    let c: COption<D> = o.into();
    assert!(c.is_some() != model.is_some() || model.is_none(), "canary: deliberately false");
}

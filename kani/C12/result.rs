// C12 — CResult <-> Result lossless (Kani twin of the Verus proof; unwrap is outside Verus' subset)
use super::CResult;
use std::boxed::Box;

static mut DROPS: u32 = 0;
fn drops() -> u32 { unsafe { DROPS } }
struct D { v: u32, heap: Box<u32> }
impl D { fn new(v: u32) -> Self { D { v, heap: Box::new(!v) } } fn ok(&self) -> bool { *self.heap == !self.v } }
impl Drop for D { fn drop(&mut self) { unsafe { DROPS += 1 } } }
impl core::fmt::Debug for D { fn fmt(&self, _f: &mut core::fmt::Formatter<'_>) -> core::fmt::Result { Ok(()) } }

fn any_res() -> (Result<D, D>, Result<u32, u32>) {
    let v: u32 = kani::any();
    if kani::any() { (Ok(D::new(v)), Ok(v)) } else { (Err(D::new(v)), Err(v)) }
}
fn view(r: &Result<D, D>) -> Result<u32, u32> {
    match r { Ok(d) => { assert!(d.ok()); Ok(d.v) } Err(d) => { assert!(d.ok()); Err(d.v) } }
}

//@ prefix=p_res kind=property clause=Result<T,E> <-> CResult<T,E>: variant and payload unchanged in both directions, payload moved exactly once; is_ok/is_err/ok/as_ref/as_mut/unwrap agree with Result
#[kani::proof]
fn p_res_roundtrip() {
    let (r, model) = any_res();
    let c: CResult<D, D> = r.into();
    assert!(c.is_ok() == model.is_ok() && c.is_err() == model.is_err(), "C12 From<Result> keeps the variant");
    match (c.as_ref(), model) {
        (Ok(d), Ok(v)) => assert!(d.v == v && d.ok(), "C12 From<Result> keeps the Ok payload"),
        (Err(d), Err(v)) => assert!(d.v == v && d.ok(), "C12 From<Result> keeps the Err payload"),
        _ => assert!(false, "C12 From<Result> keeps the variant"),
    }
    assert!(drops() == 0, "C12 conversion moves the payload without dropping");
    let back: Result<D, D> = c.into();
    assert!(view(&back) == model, "C12 From<CResult> keeps variant and payload");
    assert!(drops() == 0, "C12 conversion back moves without dropping");
    drop(back);
    assert!(drops() == 1, "C12 payload dropped exactly once");
    kani::cover!(model.is_ok(), "Ok");
    kani::cover!(model.is_err(), "Err");
}
#[kani::proof]
fn p_res_methods() {
    let (r, model) = any_res();
    let mut c: CResult<D, D> = r.into();
    match c.as_mut() {
        Ok(d) => { assert!(model.is_ok(), "C12 as_mut variant"); d.v ^= 1; *d.heap = !d.v; }
        Err(d) => { assert!(model.is_err(), "C12 as_mut variant"); d.v ^= 2; *d.heap = !d.v; }
    }
    let model = match model { Ok(v) => Ok(v ^ 1), Err(v) => Err(v ^ 2) };
    let o = c.ok();
    assert!(o.as_ref().map(|d| d.v) == model.ok(), "C12 ok() returns the Ok payload or None");
    assert!(drops() == model.is_err() as u32, "C12 ok() drops only a discarded Err payload");
    drop(o);
    assert!(drops() == 1, "C12 payload dropped exactly once");
    let v: u32 = kani::any();
    let u = CResult::<D, D>::Ok(D::new(v)).unwrap();
    assert!(u.v == v && u.ok(), "C12 unwrap returns the Ok payload");
    kani::cover!(model.is_ok(), "Ok");
    kani::cover!(model.is_err(), "Err");
}
struct Pz;
impl Drop for Pz { fn drop(&mut self) { unsafe { DROPS += 1 } } }
#[repr(align(64))]
struct Pal { v: u32, heap: Box<u8> }
impl Drop for Pal { fn drop(&mut self) { unsafe { DROPS += 1 } } }
fn res_class<T, E>(mkt: fn() -> T, mke: fn() -> E) {
    let ok: bool = kani::any();
    let r: Result<T, E> = if ok { Ok(mkt()) } else { Err(mke()) };
    let c: CResult<T, E> = r.into();
    assert!(c.is_ok() == ok && c.is_err() == !ok && c.as_ref().is_ok() == ok, "C12 From<Result> keeps the variant (any payload class)");
    let back: Result<T, E> = c.into();
    assert!(back.is_ok() == ok && drops() == 0, "C12 conversions move the payload without dropping (any payload class)");
    let c2: CResult<T, E> = back.into();
    let o = c2.ok();
    assert!(o.is_some() == ok && drops() == !ok as u32, "C12 ok() keeps the Ok payload and drops only a discarded Err payload (any payload class)");
    drop(o);
    assert!(drops() == 1, "C12 payload dropped exactly once (any payload class)");
    kani::cover!(ok, "ok");
    kani::cover!(!ok, "err");
}
#[kani::proof] fn p_res_class_zst_aligned() { res_class::<Pz, Pal>(|| Pz, || Pal { v: 1, heap: Box::new(2) }); }
#[kani::proof] fn p_res_class_aligned_zst() { res_class::<Pal, Pz>(|| Pal { v: 1, heap: Box::new(2) }, || Pz); }
//@ prefix=p_res_unwrap_err kind=panic clause=CResult::Err.unwrap() panics
#[kani::proof]
#[kani::should_panic]
fn p_res_unwrap_err() {
    let c: CResult<u32, ()> = CResult::Err(());
    let _ = c.unwrap();
    kani::cover!(true, "MUST-NOT-REACH: unwrap of Err returned");
}
//@ prefix=canary kind=canary clause=vacuity canary
#[kani::proof]
fn canary_res() {
    let (r, model) = any_res();
    let c: CResult<D, D> = r.into();
    assert!(c.is_ok() != model.is_ok(), "canary: deliberately false");
}

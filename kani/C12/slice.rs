// C12 — slice views are lossless.  Harness contracts on the real slice.rs (all functions are
// loop-free and content-oblivious; only the backing array of the harness is bounded).
use super::{CSliceMut, CSliceRef};
use core::convert::TryFrom;

const N: usize = 8;

#[derive(Clone, Copy, PartialEq, Eq, kani::Arbitrary)]
struct Z;
#[derive(Clone, Copy, PartialEq, Eq, kani::Arbitrary)]
#[repr(C)]
struct B3([u8; 3]);

fn sub<T>(arr: &[T; N]) -> &[T] {
    let off: usize = kani::any();
    let len: usize = kani::any();
    kani::assume(off <= N && len <= N - off);
    kani::cover!(len == 0 && off == N, "empty slice at the end");
    kani::cover!(len == N, "full slice");
    &arr[off..off + len]
}
fn sub_mut<T>(arr: &mut [T; N]) -> (&mut [T], usize) {
    let off: usize = kani::any();
    let len: usize = kani::any();
    kani::assume(off <= N && len <= N - off);
    kani::cover!(len == 0, "empty slice");
    kani::cover!(len == N, "full slice");
    (&mut arr[off..off + len], off)
}

fn check_ref<T: Copy + PartialEq + kani::Arbitrary>() {
    let arr: [T; N] = kani::any();
    let s = sub(&arr);
    let (p, l) = (s.as_ptr(), s.len());
    let c = CSliceRef::from(s);
    assert!(c.as_ptr() == p && c.len() == l, "C12 CSliceRef::from keeps address and length");
    assert!(c.is_empty() == (l == 0), "C12 is_empty agrees");
    let c2 = CSliceRef::from_slice(s);
    assert!(c2.as_ptr() == p && c2.len() == l, "C12 from_slice keeps address and length");
    let a = c.as_slice();
    assert!(a.as_ptr() == p && a.len() == l, "C12 as_slice gives back the same address and length");
    let d: &[T] = &*c;
    assert!(d.as_ptr() == p && d.len() == l, "C12 Deref gives back the same address and length");
    let b: &[T] = c.into();
    assert!(b.as_ptr() == p && b.len() == l, "C12 From<CSliceRef> for &[T] gives back the same address and length");
    if l > 0 {
        let i: usize = kani::any();
        kani::assume(i < l);
        assert!(b[i] == s[i] && a[i] == s[i] && d[i] == s[i], "C12 same contents");
    }
}

/// zero-sized elements: EVERY length up to usize::MAX is a valid slice (no memory is involved), so
/// the views must keep any length — the one place where lengths above isize::MAX are legitimate
#[kani::proof]
fn p_ref_zst_any_length() {
    let n: usize = kani::any();
    let base = core::ptr::NonNull::<Z>::dangling().as_ptr();
    let s: &[Z] = unsafe { core::slice::from_raw_parts(base as *const Z, n) };
    let c = CSliceRef::from(s);
    assert!(c.len() == n && c.as_ptr() == s.as_ptr(), "C12 CSliceRef::from keeps address and length (zero-sized elements, any length)");
    assert!(c.as_slice().len() == n && (&*c).len() == n, "C12 as_slice / Deref keep the length (zero-sized elements, any length)");
    let b: &[Z] = c.into();
    assert!(b.len() == n && b.as_ptr() == s.as_ptr(), "C12 From<CSliceRef> for &[T] keeps the length (zero-sized elements, any length)");
    // (zero-sized elements occupy no memory: separate views over the same dangling base do not alias)
    let mk = || CSliceMut::from(unsafe { core::slice::from_raw_parts_mut(base, n) });
    let m = mk();
    assert!(m.len() == n && m.as_slice().len() == n && (&*m).len() == n, "C12 CSliceMut keeps the length (zero-sized elements, any length)");
    let mut m2 = mk();
    assert!(m2.as_slice_mut().len() == n, "C12 as_slice_mut keeps the length (zero-sized elements, any length)");
    let m3 = mk();
    let r2 = CSliceRef::from(&m3);
    assert!(r2.len() == n);
    let back: &mut [Z] = mk().into();
    assert!(back.len() == n, "C12 From<CSliceMut> for &mut [T] keeps the length (zero-sized elements, any length)");
    kani::cover!(n > isize::MAX as usize, "more than isize::MAX elements");
    kani::cover!(n == 0, "empty");
}
fn check_mut<T: Copy + PartialEq + kani::Arbitrary>() {
    let mut arr: [T; N] = kani::any();
    let orig = arr;
    let (s, off) = sub_mut(&mut arr);
    let (p, l) = (s.as_mut_ptr(), s.len());
    let mut c = CSliceMut::from(s);
    assert!(c.as_mut_ptr() == p && c.as_ptr() == p as *const T && c.len() == l, "C12 CSliceMut::from keeps address and length");
    assert!(c.is_empty() == (l == 0), "C12 is_empty agrees");
    {
        let r = CSliceRef::from(&c);
        assert!(r.as_ptr() == p as *const T && r.len() == l, "C12 From<&CSliceMut> for CSliceRef keeps address and length");
        let a = c.as_slice();
        assert!(a.as_ptr() == p as *const T && a.len() == l, "C12 CSliceMut::as_slice same address and length");
        let d: &[T] = &*c;
        assert!(d.as_ptr() == p as *const T && d.len() == l, "C12 CSliceMut Deref same address and length");
    }
    let route: u8 = kani::any();
    kani::assume(route < 5);
    let v: T = kani::any();
    let i: usize = kani::any();
    kani::assume(l == 0 || i < l);
    match route {
        0 => {
            let m = c.as_slice_mut();
            assert!(m.as_mut_ptr() == p && m.len() == l, "C12 as_slice_mut same address and length");
            if l > 0 { m[i] = v; }
        }
        1 => {
            let m: &mut [T] = &mut *c;
            assert!(m.as_mut_ptr() == p && m.len() == l, "C12 DerefMut same address and length");
            if l > 0 { m[i] = v; }
        }
        2 => {
            let m: &mut [T] = c.into();
            assert!(m.as_mut_ptr() == p && m.len() == l, "C12 From<CSliceMut> for &mut [T] same address and length");
            if l > 0 { m[i] = v; }
        }
        3 => {
            {
                let mut re = CSliceMut::from(&mut c);
                assert!(re.as_mut_ptr() == p && re.len() == l, "C12 reborrow keeps address and length");
                if l > 0 { re[i] = v; }
            }
            // the view that was reborrowed is still the same view afterwards (second use)
            assert!(c.as_mut_ptr() == p && c.len() == l, "C12 a reborrow leaves the original view unchanged (same address and length)");
            if l > 0 { assert!(c[i] == v, "C12 the write made through the reborrow is visible through the original view"); }
        }
        _ => {
            let b: &[T] = c.into();
            assert!(b.as_ptr() == p as *const T && b.len() == l, "C12 From<CSliceMut> for &[T] same address and length");
        }
    }
    // the write landed in the original buffer at off+i, nothing else changed
    let j: usize = kani::any();
    kani::assume(j < N);
    if l > 0 && route < 4 && j == off + i {
        assert!(arr[j] == v, "C12 write through the view lands in the original buffer");
    } else {
        assert!(arr[j] == orig[j], "C12 nothing else is modified");
    }
    kani::cover!(route == 0 && l > 0, "route 0");
    kani::cover!(route == 3 && l > 0, "route 3");
}

//@ prefix=p_ref kind=property clause=&[T] -> CSliceRef -> &[T]: same address, length and contents for every sub-slice incl. empty (as_slice, Deref, From)
//@ prefix=p_mut kind=property clause=&mut [T] -> CSliceMut -> views: same address/length; a write through any mutable route lands in the original buffer and nowhere else
macro_rules! inst { ($n:ident, $f:ident, $t:ty) => { #[kani::proof] fn $n() { $f::<$t>(); kani::cover!(true, "reaches end"); } }; }
inst!(p_ref_u8, check_ref, u8);
inst!(p_ref_u64, check_ref, u64);
inst!(p_ref_zst, check_ref, Z);
inst!(p_ref_b3, check_ref, B3);
inst!(p_mut_u8, check_mut, u8);
inst!(p_mut_u64, check_mut, u64);
inst!(p_mut_zst, check_mut, Z);
inst!(p_mut_b3, check_mut, B3);

//@ prefix=p_str kind=property clause=&str / &mut str -> CSlice -> str: same address, length, bytes (from_str, From<&str>, into_str, into_mut_str, From<&mut str>)
#[kani::proof]
fn p_str_views() {
    // all strings that are prefixes/suffixes of a fixed text containing 1-,2-,3-byte sequences
    let text = "aß€b";
    let bounds = [0usize, 1, 3, 6, 7];
    let a: usize = kani::any();
    let b: usize = kani::any();
    kani::assume(a < 5 && b < 5 && a <= b);
    let s = &text[bounds[a]..bounds[b]];
    let c = CSliceRef::from_str(s);
    assert!(c.as_ptr() == s.as_ptr() && c.len() == s.len(), "C12 from_str keeps address and byte length");
    let c2: CSliceRef<u8> = s.into();
    assert!(c2.as_ptr() == s.as_ptr() && c2.len() == s.len(), "C12 From<&str> keeps address and byte length");
    let back = unsafe { c.into_str() };
    assert!(back.as_ptr() == s.as_ptr() && back.len() == s.len(), "C12 into_str gives the same string");
    let mut buf = [b'a', 0xc3, 0x9f, b'z'];
    let st = core::str::from_utf8_mut(&mut buf[..]).unwrap();
    let (p, l) = (st.as_mut_ptr(), st.len());
    let m = CSliceMut::from(st);
    assert!(m.as_mut_ptr() == p && m.len() == l, "C12 From<&mut str> keeps address and length");
    let sm = unsafe { m.into_mut_str() };
    assert!(sm.as_mut_ptr() == p && sm.len() == l, "C12 into_mut_str gives the same string");
    let m2 = CSliceMut::from(&mut buf[..]);
    let s2 = unsafe { m2.into_str() };
    assert!(s2.as_ptr() == p as *const u8 && s2.len() == 4, "C12 CSliceMut::into_str gives the same string");
    kani::cover!(a == b, "empty string");
    kani::cover!(a == 0 && b == 4, "whole string");
}

/// the views are oblivious to CONTENT: symbolic 7-bit bytes (every one of them valid UTF-8 on its
/// own, including NUL, whitespace and control characters), every sub-string
#[kani::proof]
#[kani::unwind(6)]
fn p_str_any_ascii() {
    let mut buf: [u8; 4] = kani::any();
    kani::assume(buf[0] < 0x80 && buf[1] < 0x80 && buf[2] < 0x80 && buf[3] < 0x80);
    let (off, len): (usize, usize) = kani::any();
    kani::assume(off <= 4 && len <= 4 - off);
    let idx: usize = kani::any();
    let copy = buf;
    {
        let s = unsafe { core::str::from_utf8_unchecked(&buf[off..off + len]) };
        let back = unsafe { CSliceRef::from_str(s).into_str() };
        assert!(back.as_ptr() == s.as_ptr() && back.len() == len, "C12 into_str gives the same string whatever its bytes are (NUL, whitespace, control characters)");
        let c2: CSliceRef<u8> = s.into();
        let back2 = unsafe { c2.into_str() };
        assert!(back2.as_ptr() == s.as_ptr() && back2.len() == len, "C12 From<&str> then into_str gives the same string whatever its bytes are");
        if idx < len { assert!(back.as_bytes()[idx] == copy[off + idx], "C12 same bytes"); }
    }
    let p = buf.as_mut_ptr();
    let m = CSliceMut::from(&mut buf[off..off + len]);
    let sm = unsafe { m.into_mut_str() };
    assert!(sm.as_mut_ptr() == unsafe { p.add(off) } && sm.len() == len, "C12 into_mut_str gives the same string whatever its bytes are");
    let m2 = CSliceMut::from(&mut buf[off..off + len]);
    let s2 = unsafe { m2.into_str() };
    assert!(s2.as_ptr() == unsafe { p.add(off) } as *const u8 && s2.len() == len, "C12 CSliceMut::into_str gives the same string whatever its bytes are");
    kani::cover!(len == 3 && copy[off + 2] == 0, "ends in NUL");
    kani::cover!(len == 4 && copy[0] == b' ', "starts with a space");
}
/// concrete strings (constant-folded by CBMC, so this stays decidable whatever the implementation does)
#[kani::proof]
fn p_str_concrete() {
    let cases: [&str; 9] = ["", "a", "\u{df}", "na\u{ef}ve caf\u{e9}", "a\u{df}\u{20ac}b\u{1F600}", "ab\0", "\0", "\u{feff}x", " x\n"];
    let lens: [usize; 9] = [0, 1, 2, 12, 11, 3, 1, 4, 3];
    let mut i = 0;
    while i < 9 {
        let s = cases[i];
        let c = CSliceRef::from_str(s);
        assert!(c.len() == lens[i] && c.as_ptr() == s.as_ptr(), "C12 from_str keeps address and BYTE length (non-ASCII)");
        let c2: CSliceRef<u8> = s.into();
        assert!(c2.len() == lens[i] && c2.as_ptr() == s.as_ptr(), "C12 From<&str> keeps address and BYTE length (non-ASCII)");
        let back = unsafe { c2.into_str() };
        assert!(back.len() == lens[i] && back.as_ptr() == s.as_ptr(), "C12 into_str gives the same string");
        i += 1;
    }
    kani::cover!(true, "end");
}

// ---- UTF-8 decision, modular: core::str::from_utf8[_mut] replaced by a recording stub ----------
static mut SEEN_PTR: usize = 0;
static mut SEEN_LEN: usize = 0;
static mut CALLS: u32 = 0;
static mut VERDICT_OK: bool = false;
fn a_utf8_error() -> core::str::Utf8Error {
    let mut bad = [0xffu8];
    // from_utf8_mut is not stubbed in harnesses that stub from_utf8 and vice versa
    core::str::from_utf8_mut(&mut bad).unwrap_err()
}
fn a_utf8_error2() -> core::str::Utf8Error {
    let bad = [0xffu8];
    core::str::from_utf8(&bad).unwrap_err()
}
fn stub_from_utf8(v: &[u8]) -> Result<&str, core::str::Utf8Error> {
    unsafe {
        CALLS += 1;
        SEEN_PTR = v.as_ptr() as usize;
        SEEN_LEN = v.len();
        if VERDICT_OK { Ok(core::str::from_utf8_unchecked(v)) } else { Err(a_utf8_error()) }
    }
}
fn stub_from_utf8_mut(v: &mut [u8]) -> Result<&mut str, core::str::Utf8Error> {
    unsafe {
        CALLS += 1;
        SEEN_PTR = v.as_ptr() as usize;
        SEEN_LEN = v.len();
        if VERDICT_OK { Ok(core::str::from_utf8_unchecked_mut(v)) } else { Err(a_utf8_error2()) }
    }
}

//@ prefix=p_utf8_modular kind=property clause=TryFrom<CSlice*<u8>> for &str / &mut str: passes exactly the original (ptr,len) to core::str::from_utf8[_mut] once and returns its verdict and string unchanged (refused exactly when std refuses)
#[kani::proof]
#[kani::stub(core::str::from_utf8, stub_from_utf8)]
fn p_utf8_modular_ref() {
    let arr: [u8; N] = kani::any();
    let s = sub(&arr);
    let ok: bool = kani::any();
    unsafe { VERDICT_OK = ok };
    let c = CSliceRef::from(s);
    let r = <&str>::try_from(c);
    unsafe {
        assert!(CALLS == 1, "C12 validity is decided by exactly one call to core::str::from_utf8");
        assert!(SEEN_PTR == s.as_ptr() as usize && SEEN_LEN == s.len(), "C12 the validator sees exactly the original bytes");
    }
    assert!(r.is_ok() == ok, "C12 accepted exactly when the validator accepts");
    if let Ok(st) = r { assert!(st.as_ptr() == s.as_ptr() && st.len() == s.len(), "C12 resulting str is the original bytes"); }
    kani::cover!(ok, "valid");
    kani::cover!(!ok, "invalid");
}
#[kani::proof]
#[kani::stub(core::str::from_utf8, stub_from_utf8)]
fn p_utf8_modular_mut_to_ref() {
    let mut arr: [u8; N] = kani::any();
    let (s, _off) = sub_mut(&mut arr);
    let (p, l) = (s.as_ptr() as usize, s.len());
    let ok: bool = kani::any();
    unsafe { VERDICT_OK = ok };
    let c = CSliceMut::from(s);
    let r = <&str>::try_from(c);
    unsafe {
        assert!(CALLS == 1, "C12 validity is decided by exactly one call to core::str::from_utf8");
        assert!(SEEN_PTR == p && SEEN_LEN == l, "C12 the validator sees exactly the original bytes");
    }
    assert!(r.is_ok() == ok, "C12 accepted exactly when the validator accepts");
    if let Ok(st) = r { assert!(st.as_ptr() as usize == p && st.len() == l, "C12 resulting str is the original bytes"); }
    kani::cover!(ok, "valid");
    kani::cover!(!ok, "invalid");
}
#[kani::proof]
#[kani::stub(core::str::from_utf8_mut, stub_from_utf8_mut)]
fn p_utf8_modular_mut() {
    let mut arr: [u8; N] = kani::any();
    let (s, _off) = sub_mut(&mut arr);
    let (p, l) = (s.as_ptr() as usize, s.len());
    let ok: bool = kani::any();
    unsafe { VERDICT_OK = ok };
    let c = CSliceMut::from(s);
    let r = <&mut str>::try_from(c);
    unsafe {
        assert!(CALLS == 1, "C12 validity is decided by exactly one call to core::str::from_utf8_mut");
        assert!(SEEN_PTR == p && SEEN_LEN == l, "C12 the validator sees exactly the original bytes");
    }
    assert!(r.is_ok() == ok, "C12 accepted exactly when the validator accepts");
    if let Ok(st) = r { assert!(st.as_ptr() as usize == p && st.len() == l, "C12 resulting str is the original bytes"); }
    kani::cover!(ok, "valid");
    kani::cover!(!ok, "invalid");
}

// ---- UTF-8 decision, bounded cross-check against an independent specification ------------------
/// RFC 3629 well-formedness for byte strings of length <= 4 (Unicode table 3-7), written
/// independently of core::str.
fn spec_valid(b: &[u8]) -> bool {
    let n = b.len();
    let mut i = 0;
    while i < n {
        let c = b[i];
        if c < 0x80 { i += 1; continue; }
        let need = if c >= 0xc2 && c <= 0xdf { 1 } else if c >= 0xe0 && c <= 0xef { 2 } else if c >= 0xf0 && c <= 0xf4 { 3 } else { return false };
        if i + need >= n { return false; }
        let c1 = b[i + 1];
        let (lo, hi) = match c { 0xe0 => (0xa0, 0xbf), 0xed => (0x80, 0x9f), 0xf0 => (0x90, 0xbf), 0xf4 => (0x80, 0x8f), _ => (0x80, 0xbf) };
        if c1 < lo || c1 > hi { return false; }
        let mut k = 2;
        while k <= need {
            let ck = b[i + k];
            if ck < 0x80 || ck > 0xbf { return false; }
            k += 1;
        }
        i += need + 1;
    }
    true
}
fn check_utf8_bounded<const L: usize>() {
    let arr: [u8; L] = kani::any();
    let expect = spec_valid(&arr);
    let sl = &arr[..];
    let p = sl.as_ptr();
    let c = CSliceRef::from(sl);
    let r = <&str>::try_from(c);
    assert!(r.is_ok() == expect, "C12 conversion to &str refused exactly for ill-formed UTF-8");
    if let Ok(s) = r { assert!(s.as_ptr() == p && s.len() == L, "C12 resulting str is the original bytes"); }
    kani::cover!(expect, "some valid string");
    kani::cover!(!expect || L == 0, "some invalid string");
}
//@ prefix=b_utf8 kind=property clause=bounded cross-check: for ALL byte strings of the given length, try_from is Ok exactly for well-formed UTF-8 (independent RFC 3629 spec)
#[kani::proof] #[kani::unwind(6)] fn b_utf8_len0() { check_utf8_bounded::<0>(); }
#[kani::proof] #[kani::unwind(6)] fn b_utf8_len1() { check_utf8_bounded::<1>(); }
#[kani::proof] #[kani::unwind(6)] fn b_utf8_len2() { check_utf8_bounded::<2>(); }
//@thorough-begin
#[kani::proof] #[kani::unwind(8)] fn b_utf8_len3() { check_utf8_bounded::<3>(); }
#[kani::proof] #[kani::unwind(8)] fn b_utf8_len4() { check_utf8_bounded::<4>(); }
//@thorough-end

fn check_utf8_bounded_mut<const L: usize>() {
    let mut arr: [u8; L] = kani::any();
    let copy = arr;
    let expect = spec_valid(&copy);
    let p = arr.as_ptr();
    let to_mut: bool = kani::any();
    if to_mut {
        let r = <&mut str>::try_from(CSliceMut::from(&mut arr[..]));
        assert!(r.is_ok() == expect, "C12 CSliceMut -> &mut str refused exactly for ill-formed UTF-8");
        if let Ok(s) = r { assert!(s.len() == L && (L == 0 || s.as_ptr() == p), "C12 resulting &mut str is the whole original buffer"); }
    } else {
        let r = <&str>::try_from(CSliceMut::from(&mut arr[..]));
        assert!(r.is_ok() == expect, "C12 CSliceMut -> &str refused exactly for ill-formed UTF-8");
        if let Ok(s) = r { assert!(s.len() == L && (L == 0 || s.as_ptr() == p), "C12 resulting &str is the whole original buffer"); }
    }
    kani::cover!(expect && to_mut, "valid, &mut str");
    kani::cover!((!expect || L == 0) && !to_mut, "invalid, &str");
}
#[kani::proof] #[kani::unwind(6)] fn b_utf8_mut_len1() { check_utf8_bounded_mut::<1>(); }
#[kani::proof] #[kani::unwind(6)] fn b_utf8_mut_len2() { check_utf8_bounded_mut::<2>(); }
//@thorough-begin
#[kani::proof] #[kani::unwind(8)] fn b_utf8_mut_len3() { check_utf8_bounded_mut::<3>(); }
//@thorough-end

//@ prefix=canary kind=canary clause=vacuity canary
#[kani::proof]
fn canary_slice() {
    let arr: [u64; N] = kani::any();
    let s = sub(&arr);
    let c = CSliceRef::from(s);
    assert!(c.len() != 3, "canary: deliberately false");
}

// C01 (library side) — the accessors the generated wrappers rely on hand out exactly the stored
// instance, context and temporary storage, and the constructors store exactly what they are given.
use super::*;
use crate::arc::CArc;
use crate::boxed::CBox;
use core::pin::Pin;

type Cont<'a> = CGlueObjContainer<&'a mut u64, CArc<u8>, u32>;

fn addr<T>(t: &T) -> usize { t as *const T as usize }

//@ prefix=p_acc kind=property clause=container accessors (cobj_ref, cobj_mut, cobj_pin_ref, cobj_pin_mut, cobj_base_ref, cobj_base_owned): return the stored instance's referent, the stored context and the stored temporary storage — the same addresses on every call, nothing else
#[kani::proof]
fn p_acc_container() {
    let mut x: u64 = kani::any();
    let xp = &mut x as *mut u64 as usize;
    let c: u8 = kani::any();
    let r: u32 = kani::any();
    let mut cont: Cont = CGlueObjContainer { instance: &mut x, context: CArc::from(c), ret_tmp: r };
    let (ctx_addr, tmp_addr) = (addr(&cont.context), addr(&cont.ret_tmp));
    {
        let (this, tmp, ctx) = cont.cobj_ref();
        assert!(addr(this) == xp, "C01 cobj_ref hands out the stored instance");
        assert!(addr(tmp) == tmp_addr && *tmp == r, "C01 cobj_ref hands out the stored temporary storage");
        assert!(addr(ctx) == ctx_addr && **ctx.as_ref().as_ref().unwrap() == c, "C01 cobj_ref hands out the stored context");
    }
    {
        let (this, tmp, ctx) = cont.cobj_mut();
        assert!(addr(this) == xp && addr(tmp) == tmp_addr && addr(ctx) == ctx_addr, "C01 cobj_mut hands out the same instance, storage and context");
        *this = this.wrapping_add(1);
        *tmp = tmp.wrapping_add(1);
    }
    {
        let (this, ctx) = cont.cobj_base_ref();
        assert!(addr(this) == xp && addr(ctx) == ctx_addr, "C01 cobj_base_ref hands out the same instance and context");
    }
    {
        let (this, tmp, ctx) = Pin::new(&cont).cobj_pin_ref();
        assert!(addr(&*this) == xp && addr(tmp) == tmp_addr && addr(ctx) == ctx_addr, "C01 cobj_pin_ref hands out the same instance, storage and context");
    }
    {
        let (this, tmp, ctx) = Pin::new(&mut cont).cobj_pin_mut();
        assert!(addr(&*this) == xp && addr(tmp) == tmp_addr && addr(ctx) == ctx_addr, "C01 cobj_pin_mut hands out the same instance, storage and context");
    }
    assert!(cont.ret_tmp == r.wrapping_add(1), "C01 writes through cobj_mut land in the container");
    let (inst, ctx) = cont.cobj_base_owned();
    assert!(inst as *mut u64 as usize == xp && **ctx.as_ref().as_ref().unwrap() == c, "C01 cobj_base_owned moves out the stored instance and context");
    drop(ctx);
    assert!(x == unsafe { *(xp as *const u64) });
    kani::cover!(true, "end");
}

struct V { tag: u32 }
impl CGlueVtblCont for V { type ContType = CGlueObjContainer<CBox<'static, u64>, CArc<u8>, u32>; }

//@ prefix=p_obj kind=property clause=object accessors (ccont_ref, ccont_mut, ccont_pin_ref, ccont_pin_mut, into_ccont, build_with_ccont, get_vtbl_base) and From constructors: the same container and the same vtable on every call; constructors store exactly the given instance/context with default temporary storage
#[kani::proof]
fn p_obj_accessors() {
    let v = V { tag: kani::any() };
    let x: u64 = kani::any();
    let c: u8 = kani::any();
    let cont: CGlueObjContainer<CBox<'static, u64>, CArc<u8>, u32> = CGlueObjContainer::from((CBox::from(x), CArc::from(c)));
    assert!(*cont.instance == x && cont.ret_tmp == 0 && **cont.context.as_ref().as_ref().unwrap() == c, "C01 From<(instance, context)> stores both and default temporary storage");
    let inst_ptr = &*cont.instance as *const u64 as usize;
    let mut obj = CGlueTraitObj { vtbl: &v, container: cont };
    let cp = addr(&obj.container);
    assert!(addr(obj.ccont_ref()) == cp && addr(obj.ccont_mut()) == cp, "C01 ccont_ref / ccont_mut hand out the object's own container");
    assert!(addr(&*Pin::new(&obj).ccont_pin_ref()) == cp, "C01 ccont_pin_ref hands out the object's own container");
    assert!(addr(&*Pin::new(&mut obj).ccont_pin_mut()) == cp, "C01 ccont_pin_mut hands out the object's own container");
    assert!(addr(GetVtblBase::<V>::get_vtbl_base(&obj)) == addr(&v), "C01 get_vtbl_base hands out the object's own vtable");
    let other: CGlueObjContainer<CBox<'static, u64>, CArc<u8>, u32> = CGlueObjContainer::from((CBox::from(x ^ 1), CArc::from(c)));
    let other_ptr = &*other.instance as *const u64 as usize;
    let rebuilt = obj.build_with_ccont(other);
    assert!(addr(rebuilt.vtbl) == addr(&v) && &*rebuilt.container.instance as *const u64 as usize == other_ptr, "C01 build_with_ccont keeps the vtable and takes the given container");
    let back = obj.into_ccont();
    assert!(&*back.instance as *const u64 as usize == inst_ptr && *back.instance == x, "C01 into_ccont moves out the object's own container");
    kani::cover!(true, "end");
}
//@ prefix=canary kind=canary clause=vacuity canary
#[kani::proof]
fn canary_c01_lib() {
    let mut x: u64 = kani::any();
    let mut cont: Cont = CGlueObjContainer { instance: &mut x, context: CArc::from(1u8), ret_tmp: 5 };
    let (_this, tmp, _ctx) = cont.cobj_mut();
    assert!(*tmp == 6, "canary: deliberately false");
}

// C13 — integer result codes.  In-place Kani function contracts (hook H3, result.rs) proved by
// proof_for_contract harnesses and reused via stub_verified; harness contracts for the slot clauses.
use super::{from_int_result, from_int_result_empty, into_int_out_result, into_int_result, IntError, IntResult};
use core::mem::MaybeUninit;
use core::num::NonZeroI32;
use std::boxed::Box;

static mut DROPS: u32 = 0;
fn drops() -> u32 { unsafe { DROPS } }
struct D { v: u32, heap: Box<u32> }
impl D { fn new(v: u32) -> Self { D { v, heap: Box::new(!v) } } fn ok(&self) -> bool { *self.heap == !self.v } }
impl Drop for D { fn drop(&mut self) { assert!(self.ok(), "C13 dropped value is a real value"); unsafe { DROPS += 1 } } }

/// a user error type carrying an arbitrary non-zero code
#[derive(PartialEq, Eq, Clone, Copy)]
struct Code(NonZeroI32);
impl IntError for Code {
    fn into_int_err(self) -> NonZeroI32 { self.0 }
    fn from_int_err(err: NonZeroI32) -> Self { Code(err) }
}
fn any_code() -> Code {
    let c: i32 = kani::any();
    kani::assume(c != 0);
    Code(NonZeroI32::new(c).unwrap())
}

// ---- the in-place contracts, proved -----------------------------------------------------------
//@ prefix=c_ kind=property clause=in-place contract: returned code is 0 exactly for Ok (into_int_result, into_int_out_result); decoded result is Ok exactly for code 0 (from_int_result, from_int_result_empty)
#[kani::proof_for_contract(into_int_result)]
fn c_into_int_result() {
    let res: Result<u64, Code> = if kani::any() { Ok(kani::any()) } else { Err(any_code()) };
    let _ = into_int_result(res);
}
#[kani::proof_for_contract(into_int_out_result)]
fn c_into_int_out_result() {
    let res: Result<u64, Code> = if kani::any() { Ok(kani::any()) } else { Err(any_code()) };
    let mut out = MaybeUninit::<u64>::new(0);
    let _ = into_int_out_result(res, &mut out);
}
#[kani::proof_for_contract(from_int_result)]
fn c_from_int_result() {
    let code: i32 = kani::any();
    let slot = MaybeUninit::<u64>::new(kani::any());
    let _ = unsafe { from_int_result::<u64, Code>(code, slot) };
}
#[kani::proof_for_contract(from_int_result_empty)]
fn c_from_int_result_empty() {
    let code: i32 = kani::any();
    let _ = from_int_result_empty::<Code>(code);
}
// callers checked against the contracts only (modular route)
//@ prefix=m_ kind=property clause=IntResult forwarding methods satisfy the same code contract when checked against the callee CONTRACTS only (stub_verified)
#[kani::proof]
#[kani::stub_verified(into_int_result)]
fn m_int_result_method() {
    let res: Result<u64, Code> = if kani::any() { Ok(kani::any()) } else { Err(any_code()) };
    let ok = res.is_ok();
    let code = IntResult::into_int_result(res);
    assert!((code == 0) == ok, "C13 IntResult::into_int_result: 0 exactly for Ok");
    kani::cover!(ok, "ok");
    kani::cover!(!ok, "err");
}
#[kani::proof]
#[kani::stub_verified(into_int_out_result)]
fn m_int_out_result_method() {
    let res: Result<u64, Code> = if kani::any() { Ok(kani::any()) } else { Err(any_code()) };
    let ok = res.is_ok();
    let mut out = MaybeUninit::<u64>::new(0);
    let code = IntResult::into_int_out_result(res, &mut out);
    assert!((code == 0) == ok, "C13 IntResult::into_int_out_result: 0 exactly for Ok");
    kani::cover!(ok, "ok");
    kani::cover!(!ok, "err");
}

// ---- slot clauses (harness contracts) -----------------------------------------------------------
const SENTINEL: u64 = 0x5A5A_A5A5_0F0F_F0F0;
//@ prefix=p_encode kind=property clause=encode: code 0 exactly for Ok and then the success value has been moved into the slot once; for Err the code is non-zero (the error's own code), the slot is untouched and nothing is dropped
#[kani::proof]
fn p_encode_u64() {
    let v: u64 = kani::any();
    let e = any_code();
    let is_ok: bool = kani::any();
    let res: Result<u64, Code> = if is_ok { Ok(v) } else { Err(e) };
    let mut out = MaybeUninit::<u64>::new(SENTINEL);
    let via_method: bool = kani::any();
    let code = if via_method { IntResult::into_int_out_result(res, &mut out) } else { into_int_out_result(res, &mut out) };
    let slot = unsafe { out.assume_init() };
    kani::cover!(via_method && is_ok, "ok through the IntResult method");
    if is_ok {
        assert!(code == 0, "C13 Ok encodes to 0");
        assert!(slot == v, "C13 Ok value written to the slot");
    } else {
        assert!(code != 0, "C13 Err encodes to non-zero");
        assert!(code == e.0.get(), "C13 Err encodes to the error's own code");
        assert!(slot == SENTINEL, "C13 slot untouched on Err");
    }
    kani::cover!(is_ok, "ok");
    kani::cover!(!is_ok, "err");
}
#[kani::proof]
fn p_encode_drop() {
    let v: u32 = kani::any();
    let e = any_code();
    let is_ok: bool = kani::any();
    let res: Result<D, Code> = if is_ok { Ok(D::new(v)) } else { Err(e) };
    let mut out = MaybeUninit::<D>::uninit();
    let via_method: bool = kani::any();
    let code = if via_method { IntResult::into_int_out_result(res, &mut out) } else { into_int_out_result(res, &mut out) };
    assert!(drops() == 0, "C13 encoding drops nothing (value moved into the slot, or Err without payload)");
    if is_ok {
        assert!(code == 0, "C13 Ok encodes to 0");
        let d = unsafe { out.assume_init() };
        assert!(d.v == v && d.ok(), "C13 Ok value moved into the slot intact");
        drop(d);
        assert!(drops() == 1, "C13 success value exists exactly once");
    } else {
        assert!(code != 0 && code == e.0.get(), "C13 Err encodes to its non-zero code");
        // slot is still uninitialised: nothing to drop
    }
    kani::cover!(is_ok, "ok");
    kani::cover!(!is_ok, "err");
}
struct Zd;
impl Drop for Zd { fn drop(&mut self) { unsafe { DROPS += 1 } } }
#[kani::proof]
fn p_encode_zst_payload() {
    // a zero-sized success value WITH a destructor is moved into the slot like any other value
    let res: Result<Zd, Code> = Ok(Zd);
    let mut out = MaybeUninit::<Zd>::uninit();
    let code = into_int_out_result(res, &mut out);
    assert!(code == 0, "C13 Ok encodes to 0");
    assert!(drops() == 0, "C13 the zero-sized success value is moved into the slot, not destroyed in transit");
    let back: Result<Zd, Code> = unsafe { from_int_result(code, out) };
    assert!(back.is_ok() && drops() == 0, "C13 decoding moves it out without dropping");
    drop(back);
    assert!(drops() == 1, "C13 the success value is dropped exactly once");
}
struct Pbig([u64; 24]);
#[repr(align(64))]
struct Pal { v: u32, heap: Box<u8> }
impl Drop for Pal { fn drop(&mut self) { unsafe { DROPS += 1 } } }
fn roundtrip_class<T>(mk: fn() -> T, counted: bool) {
    let e = any_code();
    let is_ok: bool = kani::any();
    let res: Result<T, Code> = if is_ok { Ok(mk()) } else { Err(e) };
    let mut slot = MaybeUninit::<T>::uninit();
    // both routes: the free function (used by generated wrappers) and the IntResult helper method
    let via_method: bool = kani::any();
    let code = if via_method { IntResult::into_int_out_result(res, &mut slot) } else { into_int_out_result(res, &mut slot) };
    assert!((code == 0) == is_ok, "C13 0 exactly for Ok (any payload class)");
    assert!(drops() == 0, "C13 encoding drops nothing (any payload class)");
    let back: Result<T, Code> = unsafe { from_int_result(code, slot) };
    assert!(back.is_ok() == is_ok && drops() == 0, "C13 decoding moves the value out without dropping; Err reads nothing (any payload class)");
    if let Err(e2) = &back { assert!(*e2 == e, "C13 error code preserved"); }
    drop(back);
    assert!(drops() == (is_ok && counted) as u32, "C13 the success value is dropped exactly once (any payload class)");
    kani::cover!(is_ok && via_method, "ok through the method");
    kani::cover!(!is_ok, "err");
}
#[kani::proof] fn p_class_zst_drop() { roundtrip_class::<Zd>(|| Zd, true); }
#[kani::proof] fn p_class_big() { roundtrip_class::<Pbig>(|| Pbig([9; 24]), false); }
#[kani::proof] fn p_class_aligned_drop() { roundtrip_class::<Pal>(|| Pal { v: 1, heap: Box::new(1) }, true); }
#[kani::proof] fn p_class_unit() { roundtrip_class::<()>(|| (), false); }
//@ prefix=p_class kind=property clause=encode/decode round trip for every success-payload class (zero-sized with destructor, unit, large, over-aligned with destructor): 0 exactly for Ok, value moved once, Err reads and drops nothing
#[kani::proof]
fn p_encode_plain() {
    let e = any_code();
    let is_ok: bool = kani::any();
    let res: Result<D, Code> = if is_ok { Ok(D::new(1)) } else { Err(e) };
    let code = into_int_result(res);
    assert!((code == 0) == is_ok, "C13 into_int_result: 0 exactly for Ok");
    if !is_ok { assert!(code == e.0.get(), "C13 error's own code"); }
    assert!(drops() == is_ok as u32, "C13 into_int_result drops the unused success value exactly once");
}
//@ prefix=p_decode kind=property clause=decode: the slot is read only when the code is 0 (for non-zero codes an uninitialised heap-owning slot is neither returned nor dropped) and Err carries from_int_err(code); code 0 returns the slot value moved once
#[kani::proof]
fn p_decode_nonzero_uninit() {
    let c: i32 = kani::any();
    kani::assume(c != 0);
    let slot = MaybeUninit::<D>::uninit();
    let r: Result<D, Code> = unsafe { from_int_result(c, slot) };
    assert!(drops() == 0, "C13 slot not dropped for a non-zero code");
    match r {
        Err(e) => assert!(e.0.get() == c, "C13 Err carries the decoded code"),
        Ok(_) => assert!(false, "C13 non-zero code decodes to Err"),
    }
    assert!(drops() == 0, "C13 nothing was read from the uninitialised slot");
    kani::cover!(c < 0, "negative code");
}
#[kani::proof]
fn p_decode_zero() {
    let v: u32 = kani::any();
    let slot = MaybeUninit::new(D::new(v));
    let r: Result<D, Code> = unsafe { from_int_result(0, slot) };
    assert!(drops() == 0, "C13 decoding moves the value without dropping");
    match r {
        Ok(d) => assert!(d.v == v && d.ok(), "C13 code 0 decodes to the slot value"),
        Err(_) => assert!(false, "C13 code 0 decodes to Ok"),
    }
    assert!(drops() == 1, "C13 success value dropped exactly once");
}
#[kani::proof]
fn p_decode_empty() {
    let c: i32 = kani::any();
    let r = from_int_result_empty::<Code>(c);
    match r {
        Ok(()) => assert!(c == 0, "C13 Ok only for code 0"),
        Err(e) => assert!(c != 0 && e.0.get() == c, "C13 Err carries the code"),
    }
    kani::cover!(c == 0, "zero");
    kani::cover!(c != 0, "nonzero");
}
//@ prefix=p_roundtrip kind=property clause=encode then decode returns the original Result (success value moved once; error code preserved)
#[kani::proof]
fn p_roundtrip() {
    let v: u32 = kani::any();
    let e = any_code();
    let is_ok: bool = kani::any();
    let res: Result<D, Code> = if is_ok { Ok(D::new(v)) } else { Err(e) };
    let mut slot = MaybeUninit::<D>::uninit();
    let code = into_int_out_result(res, &mut slot);
    let back: Result<D, Code> = unsafe { from_int_result(code, slot) };
    assert!(drops() == 0);
    match back {
        Ok(d) => assert!(is_ok && d.v == v && d.ok(), "C13 Ok round trip"),
        Err(e2) => assert!(!is_ok && e2 == e, "C13 Err round trip"),
    }
    assert!(drops() == is_ok as u32, "C13 success value dropped exactly once");
    kani::cover!(is_ok, "ok");
    kani::cover!(!is_ok, "err");
}

// ---- shipped error types -------------------------------------------------------------------------
//@ prefix=p_io kind=property clause=std::io::Error: no error encodes to 0; a non-zero OS error code survives encode/decode unchanged (all i32 codes incl. 0 and negatives; non-OS errors encode non-zero)
#[kani::proof]
fn p_io_os_codes() {
    let c: i32 = kani::any();
    let e = std::io::Error::from_raw_os_error(c);
    let code = e.into_int_err().get();
    assert!(code != 0, "C13 io::Error never encodes to 0");
    if c != 0 { assert!(code == c, "C13 non-zero OS code encodes to itself"); } else { assert!(code == 0xffff, "C13 OS code 0 encodes to the generic non-zero code"); }
    let back = <std::io::Error as IntError>::from_int_err(NonZeroI32::new(code).unwrap());
    assert!(back.raw_os_error() == Some(code), "C13 decoding yields the OS error with the same code");
    kani::cover!(c < 0, "negative");
    kani::cover!(c == 0, "zero");
    kani::cover!(c == i32::MAX, "max");
}
#[kani::proof]
fn p_io_os_roundtrip_result() {
    let c: i32 = kani::any();
    kani::assume(c != 0);
    let res: Result<u64, std::io::Error> = Err(std::io::Error::from_raw_os_error(c));
    let mut slot = MaybeUninit::<u64>::new(SENTINEL);
    let code = into_int_out_result(res, &mut slot);
    assert!(code == c, "C13 OS code crosses unchanged");
    let back: Result<u64, std::io::Error> = unsafe { from_int_result(code, slot) };
    match back { Err(e) => assert!(e.raw_os_error() == Some(c), "C13 OS code survives the round trip"), Ok(_) => assert!(false, "C13 Err stays Err") }
}
#[kani::proof]
fn p_io_non_os() {
    let k: u8 = kani::any();
    let kind = match k % 6 { 0 => std::io::ErrorKind::NotFound, 1 => std::io::ErrorKind::PermissionDenied, 2 => std::io::ErrorKind::UnexpectedEof, 3 => std::io::ErrorKind::Other, 4 => std::io::ErrorKind::InvalidData, _ => std::io::ErrorKind::TimedOut };
    let e = std::io::Error::from(kind);
    let code = e.into_int_err().get();
    assert!(code != 0, "C13 non-OS io::Error never encodes to 0");
    let res: Result<(), std::io::Error> = Err(std::io::Error::from(kind));
    assert!(into_int_result(res) != 0, "C13 non-OS io::Error result never encodes to 0");
}
//@ prefix=p_unit kind=property clause=() and fmt::Error: encode to a non-zero code; results over them encode to 0 exactly for Ok
#[kani::proof]
fn p_unit_and_fmt() {
    assert!(().into_int_err().get() != 0, "C13 () never encodes to 0");
    assert!(core::fmt::Error.into_int_err().get() != 0, "C13 fmt::Error never encodes to 0");
    let is_ok: bool = kani::any();
    let r1: Result<u8, ()> = if is_ok { Ok(1) } else { Err(()) };
    assert!((into_int_result(r1) == 0) == is_ok, "C13 Result<_,()>: 0 exactly for Ok");
    let r2: Result<u8, core::fmt::Error> = if is_ok { Ok(1) } else { Err(core::fmt::Error) };
    assert!((into_int_result(r2) == 0) == is_ok, "C13 Result<_,fmt::Error>: 0 exactly for Ok");
    let c: i32 = kani::any();
    let d1: Result<(), ()> = from_int_result_empty(c);
    assert!(d1.is_ok() == (c == 0), "C13 decode (): Ok exactly for 0");
    let d2: Result<(), core::fmt::Error> = from_int_result_empty(c);
    assert!(d2.is_ok() == (c == 0), "C13 decode fmt::Error: Ok exactly for 0");
}
//@ prefix=canary kind=canary clause=vacuity canary
#[kani::proof]
fn canary_c13() {
    let e = any_code();
    let res: Result<u64, Code> = Err(e);
    assert!(into_int_result(res) > 0, "canary: deliberately false (negative codes exist)");
}

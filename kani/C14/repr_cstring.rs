// C14 — ReprCString owns one well-formed NUL-terminated buffer.  Harness contracts on the real
// repr_cstring.rs.  Inputs: ALL valid-UTF-8 byte strings of concrete length L (full byte alphabet,
// so NUL-free, NUL-terminated, interior-NUL and unterminated inputs are all included).
use super::{string_size, ReprCStr, ReprCString};
use std::borrow::Borrow;
use std::string::String;

/// RFC 3629 well-formedness (independent of core::str)
fn spec_valid(b: &[u8]) -> bool {
    let n = b.len();
    let mut i = 0;
    while i < n {
        let c = b[i];
        if c < 0x80 { i += 1; continue; }
        let need = if c >= 0xc2 && c <= 0xdf { 1 } else if c >= 0xe0 && c <= 0xef { 2 } else if c >= 0xf0 && c <= 0xf4 { 3 } else { return false };
        if i + need >= n { return false; }
        let c1 = b[i + 1];
        let (lo, hi) = match c { 0xe0 => (0xa0, 0xbf), 0xed => (0x80, 0x9f), 0xf0 => (0x90, 0xbf), 0xf4 => (0x80, 0x8f), _ => (0x80, 0xbf) };
        if c1 < lo || c1 > hi { return false; }
        let mut k = 2;
        while k <= need {
            let ck = b[i + k];
            if ck < 0x80 || ck > 0xbf { return false; }
            k += 1;
        }
        i += need + 1;
    }
    true
}
fn any_utf8<const L: usize>() -> [u8; L] {
    let a: [u8; L] = kani::any();
    kani::assume(spec_valid(&a));
    a
}
/// length of the prefix before the first NUL
fn prefix_len(b: &[u8]) -> usize {
    let mut i = 0;
    while i < b.len() && b[i] != 0 { i += 1; }
    i
}
/// the contract of a freshly built ReprCString against input bytes `b`
fn well_formed(s: &ReprCString, b: &[u8]) {
    let p = prefix_len(b);
    let ptr = s.0.as_ptr() as *const u8;
    let mut i = 0;
    while i < p {
        assert!(unsafe { *ptr.add(i) } == b[i], "C14 buffer holds the input up to its first NUL");
        i += 1;
    }
    assert!(unsafe { *ptr.add(p) } == 0, "C14 buffer is terminated by a NUL right after the prefix");
    let r: &str = s.as_ref();
    assert!(r.len() == p, "C14 reads back with the prefix length");
    assert!(r.as_ptr() == ptr, "C14 reads back from its own buffer");
    let mut i = 0;
    while i < p {
        assert!(r.as_bytes()[i] == b[i], "C14 reads back as the prefix");
        i += 1;
    }
}

fn check_from_str<const L: usize>() {
    let a = any_utf8::<L>();
    let st = unsafe { core::str::from_utf8_unchecked(&a) };
    let s = ReprCString::from(st);
    well_formed(&s, &a);
    drop(s); // dealloc-size obligation: freed with the size it was allocated with
    kani::cover!(prefix_len(&a) == L, "NUL-free input");
    kani::cover!(L == 0 || prefix_len(&a) < L, "input containing NUL");
}
fn check_from_bytes<const L: usize>() {
    let a = any_utf8::<L>();
    let s = ReprCString::from(&a[..]);
    well_formed(&s, &a);
    drop(s);
    kani::cover!(prefix_len(&a) == L, "NUL-free input (no terminator in the input)");
    kani::cover!(L == 0 || prefix_len(&a) < L, "input containing NUL");
}
fn check_from_string<const L: usize>() {
    let a = any_utf8::<L>();
    let st = unsafe { core::str::from_utf8_unchecked(&a) };
    let s = ReprCString::from(String::from(st));
    well_formed(&s, &a);
    drop(s);
}
fn check_clone<const L: usize>() {
    let a = any_utf8::<L>();
    let st = unsafe { core::str::from_utf8_unchecked(&a) };
    let s = ReprCString::from(st);
    let c = s.clone();
    well_formed(&c, &a);
    assert!(c.0.as_ptr() != s.0.as_ptr(), "C14 clone owns its own buffer");
    assert!(c == s, "C14 clone compares equal");
    if kani::any() { drop(s); well_formed(&c, &a); } else { drop(c); well_formed(&s, &a); }
}
fn check_clone_from<const L1: usize, const L2: usize>() {
    let a = any_utf8::<L1>();
    let b = any_utf8::<L2>();
    let mut sa = ReprCString::from(unsafe { core::str::from_utf8_unchecked(&a) });
    let sb = ReprCString::from(unsafe { core::str::from_utf8_unchecked(&b) });
    sa.clone_from(&sb);
    well_formed(&sa, &b);
    well_formed(&sb, &b);
    assert!(sa.0.as_ptr() != sb.0.as_ptr(), "C14 clone_from leaves the target with its own buffer");
    assert!(unsafe { string_size(sa.0.as_ptr()) } == prefix_len(&b) + 1, "C14 after clone_from the buffer is exactly content + NUL (it is later freed with that size)");
    if kani::any() { drop(sb); well_formed(&sa, &b); } else { drop(sa); well_formed(&sb, &b); }
}
fn check_eq<const L1: usize, const L2: usize>() {
    let a = any_utf8::<L1>();
    let b = any_utf8::<L2>();
    let (pa, pb) = (prefix_len(&a), prefix_len(&b));
    let mut same = pa == pb;
    let mut i = 0;
    while i < pa && i < pb { if a[i] != b[i] { same = false; } i += 1; }
    let sa = ReprCString::from(unsafe { core::str::from_utf8_unchecked(&a) });
    let sb = ReprCString::from(&b[..]);
    assert!((sa == sb) == same, "C14 compares by content (prefix before the first NUL)");
    let ra: &ReprCStr = sa.borrow();
    let rb: &ReprCStr = sb.borrow();
    assert!((ra == rb) == same, "C14 borrowed views compare by content");
    let x: &str = ra.as_ref();
    assert!(x.len() == pa && x.as_ptr() == sa.0.as_ptr() as *const u8, "C14 Borrow<ReprCStr> reads the same text");
    kani::cover!(same, "equal contents");
    kani::cover!(!same, "different contents");
}
/// recording hasher: what is fed, in order
struct Rec { buf: [u8; 8], n: usize }
impl std::hash::Hasher for Rec {
    fn finish(&self) -> u64 { 0 }
    fn write(&mut self, bytes: &[u8]) {
        let mut i = 0;
        while i < bytes.len() { if self.n < 8 { self.buf[self.n] = bytes[i]; } self.n += 1; i += 1; }
    }
}
fn check_hash<const L: usize>() {
    use std::hash::Hash;
    let a = any_utf8::<L>();
    let p = prefix_len(&a);
    let s = ReprCString::from(&a[..]);
    let mut h1 = Rec { buf: [0; 8], n: 0 };
    s.hash(&mut h1);
    let mut h2 = Rec { buf: [0; 8], n: 0 };
    unsafe { core::str::from_utf8_unchecked(&a[..p]) }.hash(&mut h2);
    assert!(h1.n == h2.n && u64::from_ne_bytes(h1.buf) == u64::from_ne_bytes(h2.buf), "C14 hashes exactly like its content string");
    let r: &ReprCStr = s.borrow();
    let mut h3 = Rec { buf: [0; 8], n: 0 };
    r.hash(&mut h3);
    assert!(h3.n == h2.n && u64::from_ne_bytes(h3.buf) == u64::from_ne_bytes(h2.buf), "C14 borrowed view hashes like its content string");
    assert!(h1.n >= p, "C14 hash covers the whole content");
}
fn check_cstr<const L: usize>() {
    // a C string: L content bytes without NUL, then the terminator
    let mut a = [0u8; 8];
    let c = any_utf8::<L>();
    kani::assume(prefix_len(&c) == L);
    let mut i = 0;
    while i < L { a[i] = c[i]; i += 1; }
    let cs = unsafe { std::ffi::CStr::from_bytes_with_nul_unchecked(&a[..L + 1]) };
    let r = ReprCStr::from(cs);
    let t: &str = r.as_ref();
    assert!(t.len() == L && t.as_ptr() == a.as_ptr(), "C14 ReprCStr borrowed from a C string reads back the same text");
    let mut i = 0;
    while i < L { assert!(t.as_bytes()[i] == c[i], "C14 ReprCStr same bytes"); i += 1; }
}

fn check_size_deref<const L: usize>() {
    let a = any_utf8::<L>();
    let s = ReprCString::from(&a[..]);
    let p = prefix_len(&a);
    assert!(unsafe { string_size(s.0.as_ptr()) } == p + 1, "C14 buffer size is prefix length + 1");
    let d: &str = &*s;
    assert!(d.len() == p && d.as_ptr() == s.0.as_ptr() as *const u8, "C14 Deref agrees with as_ref");
}
macro_rules! inst { ($n:ident, $u:literal, $f:ident, $($g:tt)*) => { #[kani::proof] #[kani::unwind($u)] fn $n() { $f::<$($g)*>(); kani::cover!(true, "reaches end"); } }; }
//@ prefix=p_size kind=property clause=string_size of the buffer is prefix length + 1; Deref agrees with as_ref
//@ prefix=p_str kind=property clause=From<&str>: buffer = prefix before first NUL + exactly one NUL; reads back as the prefix; freed once with its allocation size; nothing read outside input/buffer; no leak
//@ prefix=p_bytes kind=property clause=From<&[u8]>: same contract for byte slices (incl. inputs without any NUL)
//@ prefix=p_string kind=property clause=From<String>: same contract
//@ prefix=p_clone kind=property clause=clone: own buffer, same content, both independently droppable
//@ prefix=p_clonefrom kind=property clause=clone_from (assignment from a shorter / longer string): target reads back as the source from its own buffer of exactly content + NUL, both independently droppable, freed with the allocation size
//@ prefix=p_eq kind=property clause=PartialEq (ReprCString and borrowed ReprCStr) is content equality
//@ prefix=p_hash kind=property clause=Hash feeds the hasher exactly what the content string feeds
//@ prefix=p_cstr kind=property clause=ReprCStr borrowed from a CStr reads back the same text
//@ prefix=canary kind=canary clause=vacuity canary
/*INSTANCES*/

/// records what a formatter writes
struct Sink { buf: [u8; 16], n: usize, overflow: bool }
impl core::fmt::Write for Sink {
    fn write_str(&mut self, s: &str) -> core::fmt::Result {
        let b = s.as_bytes();
        let mut i = 0;
        while i < b.len() { if self.n < 16 { self.buf[self.n] = b[i]; self.n += 1; } else { self.overflow = true; } i += 1; }
        Ok(())
    }
}
/// reading back through Display (`{}`, what to_string() uses) gives exactly the prefix
fn display_reads_back(s: &ReprCString, b: &[u8]) {
    use core::fmt::Write;
    let p = prefix_len(b);
    let mut k = Sink { buf: [0; 16], n: 0, overflow: false };
    let r = write!(k, "{}", s);
    assert!(r.is_ok() && !k.overflow && k.n == p, "C14 Display writes exactly the prefix's bytes");
    let mut i = 0;
    while i < p { assert!(k.buf[i] == b[i], "C14 Display reads back as the prefix (byte for byte, multi-byte sequences included)"); i += 1; }
    let rc: &ReprCStr = s.borrow();
    let mut k2 = Sink { buf: [0; 16], n: 0, overflow: false };
    let r2 = write!(k2, "{}", rc);
    assert!(r2.is_ok() && k2.n == p, "C14 Display of the borrowed ReprCStr writes exactly the prefix's bytes");
    let mut i = 0;
    while i < p { assert!(k2.buf[i] == b[i], "C14 Display of the borrowed ReprCStr reads back as the prefix"); i += 1; }
}
/// concrete inputs (constant-folded by CBMC): longer strings, multi-byte sequences, interior and
/// trailing NULs, no terminator.  All obligations of the symbolic harnesses, on fixed data.
fn table_case(b: &[u8]) {
    let st = unsafe { core::str::from_utf8_unchecked(b) };
    let s1 = ReprCString::from(st);
    well_formed(&s1, b);
    let s2 = ReprCString::from(b);
    well_formed(&s2, b);
    let s3 = s1.clone();
    well_formed(&s3, b);
    assert!(s1 == s2 && s2 == s3, "C14 equal content compares equal");
    let other = ReprCString::from("zz\u{7f}");
    assert!(!(s1 == other), "C14 different content compares unequal");
    // assignment by clone_from, from a longer and into a longer string: own buffer of exactly
    // content + NUL (the dealloc-size obligation checks the later release)
    let mut s4 = ReprCString::from("0123456");
    s4.clone_from(&s1);
    well_formed(&s4, b);
    assert!(s4.0.as_ptr() != s1.0.as_ptr(), "C14 clone_from leaves the target with its own buffer");
    let mut s5 = ReprCString::from("");
    s5.clone_from(&s1);
    well_formed(&s5, b);
}
//@ prefix=t_display kind=property clause=reading back through Display (what to_string() uses), for ReprCString and the borrowed ReprCStr: exactly the bytes of the prefix, multi-byte sequences included
#[kani::proof] #[kani::unwind(9)] fn t_display_a() { let b = "h\u{e9}l\0o".as_bytes(); let s = ReprCString::from(b); display_reads_back(&s, b); let b2 = "\u{20ac}".as_bytes(); let s2 = ReprCString::from(unsafe { core::str::from_utf8_unchecked(b2) }); display_reads_back(&s2, b2); kani::cover!(true, "end"); }
//@ prefix=t_table kind=property clause=concrete table (lengths up to 9, multi-byte, interior/trailing NUL, unterminated): buffer contents, read-back, clone, equality, dealloc-size and leak obligations
#[kani::proof] #[kani::unwind(9)] fn t_table_a() { table_case(b"ab\0cd"); table_case("h\u{e9}l\0o".as_bytes()); kani::cover!(true, "end"); }
//@thorough-begin
#[kani::proof] #[kani::unwind(13)] fn t_table_b() { table_case("h\u{e9}llo w\u{f6}".as_bytes()); table_case("\u{20ac}\0\u{20ac}".as_bytes()); kani::cover!(true, "end"); }
#[kani::proof] #[kani::unwind(13)] fn t_table_c() { table_case("\u{1f600}x\0".as_bytes()); table_case(b"\0\0\0"); table_case(b"12345678\0"); kani::cover!(true, "end"); }
//@thorough-end

#[kani::proof]
#[kani::unwind(5)]
fn canary_c14() {
    let a = any_utf8::<2>();
    let s = ReprCString::from(unsafe { core::str::from_utf8_unchecked(&a) });
    let r: &str = s.as_ref();
    assert!(r.len() == 2, "canary: deliberately false (NUL shortens)");
}

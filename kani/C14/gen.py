def instances(tier):
    q = tier == "quick"
    N = 3 if q else 7
    out = []
    for l in range(0, N + 1):
        u = l + 3
        if l <= (2 if q else 7): out.append(f"inst!(p_str_{l}, {u}, check_from_str, {l});")
        out.append(f"inst!(p_bytes_{l}, {u}, check_from_bytes, {l});")
        if (l == 1 if q else l <= 3): out.append(f"inst!(p_size_{l}, {u}, check_size_deref, {l});")
        if (l == 1 if q else l <= 3): out.append(f"inst!(p_clone_{l}, {u}, check_clone, {l});")
        if (l in (1, 2) if q else l <= 3): out.append(f"inst!(p_hash_{l}, {u}, check_hash, {l});")
        if l <= 4: out.append(f"inst!(p_cstr_{l}, {u}, check_cstr, {l});")
        if l == 2 or (not q and l <= 3): out.append(f"inst!(p_string_{l}, {u}, check_from_string, {l});")
    pairs = [(1, 1), (1, 2)] if q else [(1, 1), (2, 2), (1, 2), (3, 3), (2, 3), (0, 1)]
    for a, b in pairs:
        out.append(f"inst!(p_eq_{a}_{b}, {max(a, b) + 3}, check_eq, {a}, {b});")
    for a, b in ([] if q else [(1, 1), (2, 1), (1, 2)]):  # quick tier: concrete table only (symbolic pairs cost minutes)
        out.append(f"inst!(p_clonefrom_{a}_{b}, {max(a, b) + 3}, check_clone_from, {a}, {b});")
    return "\n".join(out)

//! Contract per shape: what the implementor recorded == what the caller sent (address, length,
//! sampled element at a symbolic index, variant, payload); what the caller gets back == what the
//! implementor produced; writes by the callee are visible to the caller.  Glue is loop-free and
//! length-oblivious; only the backing arrays of the harness are bounded.
use super::*;
use cglue::callback::OpaqueCallback;
use cglue::iter::CIterator;

const N: usize = 6;
fn sub<T>(arr: &[T; N]) -> (&[T], usize) {
    let off: usize = kani::any();
    let len: usize = kani::any();
    kani::assume(off <= N && len <= N - off);
    (&arr[off..off + len], off)
}
fn imp(rec: &mut Rec) -> Imp { Imp { rec, buf: kani::any(), cell: kani::any() } }
fn rec0() -> Rec {
    let mut r = Rec::default();
    r.idx = kani::any();
    r.wval = kani::any();
    r.out_variant = kani::any();
    r.out_payload = kani::any();
    kani::assume(r.out_variant < 2);
    r
}

//@ prefix=p_slice kind=property clause=slices (&[T] for u8, u64, zero-sized, 3-byte struct; two slices in one call): same address, length and elements arrive, for every sub-slice incl. empty; exactly one call of the right method
#[kani::proof]
fn p_slice_ref() {
    let mut rec = rec0();
    let a8: [u8; N] = kani::any();
    let a64: [u64; N] = kani::any();
    let ab: [B3; N] = kani::any();
    let az = [(); N];
    let which: u8 = kani::any();
    kani::assume(which < 5);
    let mut obj = trait_obj!(imp(&mut rec) as Shapes);
    let (exp_ptr, exp_len, exp_elem, tag);
    let idx = rec.idx;
    match which {
        0 => { let (s, _) = sub(&a8); exp_ptr = s.as_ptr() as usize; exp_len = s.len(); exp_elem = if idx < s.len() { s[idx] as u64 } else { 0 }; tag = 1; obj.sl_u8(s); }
        1 => { let (s, _) = sub(&a64); exp_ptr = s.as_ptr() as usize; exp_len = s.len(); exp_elem = if idx < s.len() { s[idx] } else { 0 }; tag = 2; obj.sl_u64(s); }
        2 => { let (s, _) = sub(&az); exp_ptr = s.as_ptr() as usize; exp_len = s.len(); exp_elem = 0; tag = 3; obj.sl_zst(s); }
        3 => { let (s, _) = sub(&ab); exp_ptr = s.as_ptr() as usize; exp_len = s.len(); exp_elem = if idx < s.len() { let b = s[idx].0; b[0] as u64 | (b[1] as u64) << 8 | (b[2] as u64) << 16 } else { 0 }; tag = 4; obj.sl_b3(s); }
        _ => {
            let (s, _) = sub(&a8);
            let (t, _) = sub(&a8);
            exp_ptr = s.as_ptr() as usize; exp_len = s.len(); exp_elem = 0; tag = 5;
            obj.sl_two(s, t);
            assert!(rec.ptr2 == t.as_ptr() as usize && rec.len2 == t.len(), "C02 second slice argument arrives with its own address and length");
        }
    }
    core::mem::forget(obj);
    assert!(rec.calls == 1 && rec.tag == tag, "C02 exactly one call of the right method");
    assert!(rec.ptr == exp_ptr, "C02 slice arrives at the same address");
    assert!(rec.len == exp_len, "C02 slice arrives with the same length");
    assert!(rec.elem == exp_elem, "C02 slice arrives with the same elements");
    kani::cover!(which == 2 && exp_len == N, "full zero-sized slice");
    kani::cover!(which == 4, "two slices");
    kani::cover!(exp_len == 0, "empty slice");
}
//@ prefix=p_mut kind=property clause=&mut [T] and &mut T: same address/length arrive; the callee's write at a symbolic index is visible to the caller and nothing else changes
#[kani::proof]
fn p_mut_slice() {
    let mut rec = rec0();
    let mut arr: [u64; N] = kani::any();
    let orig = arr;
    let off: usize = kani::any();
    let len: usize = kani::any();
    kani::assume(off <= N && len <= N - off);
    let (idx, wval) = (rec.idx, rec.wval);
    let mut obj = trait_obj!(imp(&mut rec) as Shapes);
    let p = arr[off..].as_ptr() as usize;
    obj.sl_mut(&mut arr[off..off + len]);
    core::mem::forget(obj);
    assert!(rec.calls == 1 && rec.tag == 6, "C02 exactly one call of the right method");
    assert!(rec.ptr == p && rec.len == len, "C02 mutable slice arrives with the same address and length");
    let j: usize = kani::any();
    kani::assume(j < N);
    if idx < len && j == off + idx {
        assert!(rec.elem == orig[j], "C02 callee read the caller's element");
        assert!(arr[j] == wval, "C02 the callee's write is visible to the caller");
    } else {
        assert!(arr[j] == orig[j], "C02 nothing else was modified");
    }
    kani::cover!(idx < len, "a write happened");
    kani::cover!(len == 0, "empty");
}
#[kani::proof]
fn p_mut_ref() {
    let mut rec = rec0();
    let mut x: u64 = kani::any();
    let x0 = x;
    let wval = rec.wval;
    let obj = trait_obj!(imp(&mut rec) as Shapes);
    obj.mut_ref(&mut x);
    core::mem::forget(obj);
    assert!(rec.ptr == &x as *const u64 as usize && rec.payload == x0, "C02 &mut T arrives pointing at the caller's value");
    assert!(x == wval, "C02 the callee's write through &mut T is visible to the caller");
}
//@ prefix=p_str kind=property clause=strings (&str, two strings around a scalar): same address, byte length and bytes arrive, incl. empty and non-ASCII
#[kani::proof]
fn p_str_ref() {
    let mut rec = rec0();
    let text = "aß€b\u{1F600}";
    let bounds = [0usize, 1, 3, 6, 7, 11];
    let (a, b, c, d): (usize, usize, usize, usize) = kani::any();
    kani::assume(a <= b && b < 6 && c <= d && d < 6);
    let s = &text[bounds[a]..bounds[b]];
    let t = &text[bounds[c]..bounds[d]];
    let two: bool = kani::any();
    let n: u32 = kani::any();
    let idx = rec.idx;
    let obj = trait_obj!(imp(&mut rec) as Shapes);
    if two { obj.st_two(s, n, t); } else { obj.st_ref(s); }
    core::mem::forget(obj);
    assert!(rec.calls == 1 && rec.tag == if two { 8 } else { 7 }, "C02 exactly one call of the right method");
    assert!(rec.ptr == s.as_ptr() as usize && rec.len == s.len(), "C02 string arrives with the same address and byte length");
    if two {
        assert!(rec.ptr2 == t.as_ptr() as usize && rec.len2 == t.len() && rec.payload == n as u64, "C02 second string and the scalar between them arrive unchanged");
    } else if idx < s.len() {
        assert!(rec.elem == s.as_bytes()[idx] as u64, "C02 string arrives with the same bytes");
    }
    kani::cover!(a == b, "empty string");
    kani::cover!(!two && a == 0 && b == 5, "whole non-ASCII string");
}
fn str_case(s: &str, blen: usize) {
    let mut rec = Rec::default();
    let obj = trait_obj!(imp(&mut rec) as Shapes);
    obj.st_ref(s);
    core::mem::forget(obj);
    assert!(rec.calls == 1 && rec.tag == 7, "C02 exactly one call of the right method");
    assert!(rec.ptr == s.as_ptr() as usize && rec.len == blen, "C02 a non-ASCII string arrives with the same address and BYTE length");
}
#[kani::proof]
fn p_str_concrete() {
    // concrete non-ASCII strings (constant-folded): stays decidable whatever the conversion does
    str_case("", 0);
    str_case("\u{df}", 2);
    str_case("na\u{ef}ve caf\u{e9}", 12);
    str_case("a\u{df}\u{20ac}b\u{1F600}", 11);
    kani::cover!(true, "end");
}
#[kani::proof]
fn p_str_ext_write() {
    // builtin external traits: fmt::Write (string in, integer-coded unit result out), AsMut (returned &mut T)
    let mut rec = rec0();
    let text = "aß€b\u{1F600}";
    let bounds = [0usize, 1, 3, 6, 7, 11];
    let (a, b): (usize, usize) = kani::any();
    kani::assume(a <= b && b < 6);
    let s = &text[bounds[a]..bounds[b]];
    let idx = rec.idx;
    let fail = rec.out_variant != 0;
    let wv: u64 = kani::any();
    if kani::any() {
        let mut obj = trait_obj!(imp(&mut rec) as ::ext::core::fmt::Write);
        use core::fmt::Write as _;
        let r = obj.write_str(s);
        core::mem::forget(obj);
        assert!(r.is_err() == fail, "C02 the integer-coded unit result of fmt::Write returns unchanged");
        assert!(rec.calls == 1 && rec.tag == 40, "C02 exactly one call of the right method");
        assert!(rec.ptr == s.as_ptr() as usize && rec.len == s.len(), "C02 string arrives with the same address and byte length (fmt::Write)");
        if idx < s.len() { assert!(rec.elem == s.as_bytes()[idx] as u64, "C02 string arrives with the same bytes (fmt::Write)"); }
        kani::cover!(fail && a == 0 && b == 5, "error, whole string");
        kani::cover!(!fail && a == b, "ok, empty string");
    } else {
        let mut obj = trait_obj!(imp(&mut rec) as AsMut<u64>);
        let p1 = { let m: &mut u64 = obj.as_mut(); *m = wv; m as *mut u64 as usize };
        let (p2, v2) = { let m: &mut u64 = obj.as_mut(); (m as *mut u64 as usize, *m) };
        core::mem::forget(obj);
        assert!(p1 == p2 && v2 == wv, "C02 a write through the returned &mut T lands in the implementor (AsMut)");
        assert!(rec.calls == 2 && rec.tag == 41, "C02 exactly one call of the right method per request");
    }
}
/// records what a formatter writes: the total length and the bytes at ten fixed positions of the
/// concatenated text (both ends of every piece boundary of the implementor's output) — no per-byte
/// loop, and independent of how the text is cut into pieces on the way
const SAMPLE: [usize; 10] = [0, 1, 2, 3, 4, 70, 71, 72, 73, 74];
struct Sink { at: [u8; 10], n: usize, pieces: u32 }
impl core::fmt::Write for Sink {
    fn write_str(&mut self, s: &str) -> core::fmt::Result {
        let b = s.as_bytes();
        self.pieces += 1;
        macro_rules! samp { ($($k:literal)*) => { $( { let p = SAMPLE[$k]; if p >= self.n && p - self.n < b.len() { self.at[$k] = b[p - self.n]; } } )* } }
        samp!(0 1 2 3 4 5 6 7 8 9);
        self.n += b.len();
        Ok(())
    }
}
fn ext_fmt_case(fail: bool, debug: bool) {
    // builtin formatting glue (Display / Debug of an opaque object): the text the implementor
    // writes reaches the caller's formatter byte for byte and in order, whatever the piece sizes,
    // and its error returns unchanged
    use core::fmt::Write;
    let mut rec = Rec::default();
    rec.out_variant = fail as u8;
    let mut direct = Sink { at: [0; 10], n: 0, pieces: 0 };
    let mut through = Sink { at: [0; 10], n: 0, pieces: 0 };
    let (r1, r2);
    {
        let im = imp(&mut rec);
        r1 = if debug { write!(direct, "{:?}", im) } else { write!(direct, "{}", im) };
        core::mem::forget(im);
    }
    {
        let im = imp(&mut rec);
        if debug { let obj = trait_obj!(im as Debug); r2 = write!(through, "{:?}", obj); core::mem::forget(obj); }
        else { let obj = trait_obj!(im as Display); r2 = write!(through, "{}", obj); core::mem::forget(obj); }
    }
    assert!(r1.is_err() == r2.is_err() && r2.is_err() == (fail && !debug), "C02 the formatting result returns unchanged");
    assert!(rec.calls == 2, "C02 exactly one call of the implementor's fmt per request");
    assert!(direct.n == through.n, "C02 the same number of bytes reaches the caller's formatter");
    assert!(direct.n == if fail && !debug { 73 } else if debug { 73 } else { 75 }, "(the implementor wrote what the harness expects)");
    macro_rules! cmp { ($($k:literal)*) => { $( assert!(direct.at[$k] == through.at[$k], "C02 the formatted text crosses unchanged and in order (sampled at both ends of every piece)"); )* } }
    cmp!(0 1 2 3 4 5 6 7 8 9);
    kani::cover!(true, "end");
}
// (concrete cases, constant-folded: stays decidable whatever the glue does with the pieces)
#[kani::proof] #[kani::unwind(4)] fn p_str_ext_fmt_display() { ext_fmt_case(false, false); }
#[kani::proof] #[kani::unwind(4)] fn p_str_ext_fmt_display_err() { ext_fmt_case(true, false); }
#[kani::proof] #[kani::unwind(4)] fn p_str_ext_fmt_debug() { ext_fmt_case(false, true); }
//@ prefix=p_opt kind=property clause=Option<T> (wrapped), Option<&T> (forwarded), Result<T,E> (wrapped): variant and payload arrive and return unchanged
#[kani::proof]
fn p_opt_res() {
    let mut rec = rec0();
    let (ov, op) = (rec.out_variant, rec.out_payload);
    let which: u8 = kani::any();
    kani::assume(which < 3);
    let some: bool = kani::any();
    let v: u32 = kani::any();
    let e: u8 = kani::any();
    let cell: u64 = kani::any();
    let obj = trait_obj!(imp(&mut rec) as Shapes);
    match which {
        0 => {
            let r = obj.opt_val(if some { Some(v) } else { None });
            assert!(rec.variant == some as u8 && (!some || rec.payload == v as u64), "C02 Option<T> arrives with the same variant and payload");
            assert!(r == if ov == 1 { Some(op as u32) } else { None }, "C02 Option<T> result returns unchanged");
        }
        1 => {
            obj.opt_npo(if some { Some(&cell) } else { None });
            assert!(rec.variant == some as u8, "C02 Option<&T> arrives with the same variant");
            if some { assert!(rec.ptr == &cell as *const u64 as usize && rec.payload == cell, "C02 Option<&T> arrives pointing at the caller's value"); }
        }
        _ => {
            let r = obj.res_val(if some { Ok(v) } else { Err(e) });
            assert!(rec.variant == !some as u8 && rec.payload == if some { v as u64 } else { e as u64 }, "C02 Result arrives with the same variant and payload");
            assert!(r == if ov == 0 { Ok(op as u32) } else { Err(op as u8) }, "C02 Result returns unchanged");
        }
    }
    core::mem::forget(obj);
    assert!(rec.calls == 1 && rec.tag == 9 + which as u32, "C02 exactly one call of the right method");
    kani::cover!(which == 0 && !some && ov == 1, "None in, Some out");
    kani::cover!(which == 2 && !some && ov == 0, "Err in, Ok out");
}
//@ prefix=p_int kind=property clause=integer-coded results: Ok payload and every non-zero OS error code (incl. negative) return unchanged
#[kani::proof]
fn p_int_result() {
    let mut rec = rec0();
    let (ov, op, wv) = (rec.out_variant, rec.out_payload, rec.wval);
    kani::assume(wv as i32 != 0);
    let v: u32 = kani::any();
    let obj = trait_obj!(imp(&mut rec) as Shapes);
    let r = obj.int_res(v);
    core::mem::forget(obj);
    assert!(rec.calls == 1 && rec.tag == 22 && rec.payload == v as u64, "C02 argument of an integer-result method arrives unchanged");
    match r {
        Ok(x) => assert!(ov == 0 && x == op as u32, "C02 Ok payload of an integer-coded result returns unchanged"),
        Err(e) => assert!(ov == 1 && e.raw_os_error() == Some(wv as i32), "C02 error code of an integer-coded result returns unchanged"),
    }
    kani::cover!(ov == 1 && (wv as i32) < 0, "negative error code");
    kani::cover!(ov == 0, "ok");
}
#[kani::proof]
fn p_int_result_scope() {
    // a plain Result method declared AFTER a method-level #[int_result] one keeps the whole error
    // value (here: an io::Error that is a kind, not an OS code)
    let mut rec = rec0();
    let v: u32 = kani::any();
    let (ov, op, wv) = (rec.out_variant, rec.out_payload as u32, rec.wval as i32 | 1);
    let marked: bool = kani::any();
    let obj = trait_obj!(imp(&mut rec) as Shapes2);
    let r = if marked { obj.io_marked(v) } else { obj.io_plain_after(v) };
    core::mem::forget(obj);
    assert!(rec.calls == 1 && rec.tag == if marked { 28 } else { 29 } && rec.payload == v as u64, "C02 exactly one call of the right method with the argument");
    match r {
        Ok(x) => assert!(ov == 0 && x == op, "C02 Ok payload returns unchanged"),
        Err(e) => {
            assert!(ov != 0, "C02 the variant returns unchanged");
            if marked { assert!(e.raw_os_error() == Some(wv), "C02 integer-coded error: the OS code returns unchanged"); }
            else { assert!(e.raw_os_error().is_none() && e.kind() == std::io::ErrorKind::NotFound, "C02 a Result that is NOT integer-coded returns its whole error value (kind, no OS code)"); }
        }
    }
    kani::cover!(!marked && ov != 0, "plain method, error");
    kani::cover!(marked && ov != 0, "marked method, error");
}
#[kani::proof]
fn p_opt_owned_box() {
    // Option<CBox<T>>: variant, address and payload arrive; what the callee hands back returns
    // unchanged; and the vtable slot itself takes / returns the published C option type
    let mut rec = rec0();
    let ov = rec.out_variant;
    let (some, v): (bool, u64) = kani::any();
    let obj = trait_obj!(imp(&mut rec) as Shapes2);
    let slot_ty = core::any::type_name_of_val(&obj.get_vtbl().opt_box());
    let mentions_coption = { let n = slot_ty.as_bytes(); let pat = b"COption"; let mut hit = false; let mut i = 0; while i + 7 <= n.len() { let mut k = 0; let mut eq = true; while k < 7 { if n[i + k] != pat[k] { eq = false; } k += 1; } if eq { hit = true; } i += 1; } hit };
    assert!(mentions_coption, "C02 an Option<CBox<T>> argument / result crosses as the C option type (tag + payload), not as a bare Rust Option");
    let b = cglue::boxed::CBox::from(v);
    let addr = &*b as *const u64 as usize;
    let back = obj.opt_box(if some { Some(b) } else { core::mem::forget(b); None });
    core::mem::forget(obj);
    assert!(rec.calls == 1 && rec.tag == 33 && rec.variant == some as u8, "C02 Option<CBox<T>> arrives with the same variant");
    if some { assert!(rec.ptr == addr && rec.payload == v, "C02 the box arrives with the same instance and contents"); }
    match back { Some(x) => { assert!(some && ov == 1 && &*x as *const u64 as usize == addr && *x == v, "C02 the box handed back returns unchanged"); } None => assert!(!(some && ov == 1), "C02 None returns unchanged") }
    kani::cover!(some && ov == 1, "box in, box out");
    kani::cover!(!some, "None in");
}
//@ prefix=p_npo kind=property clause=forwarded (null-pointer-optimised) options — Option<NonZeroU32>, Option<&mut T> in / Option<&T> out, Option<extern "C" fn> — and Result<(),E>: variant, payload and address arrive and return unchanged; writes through Option<&mut T> are visible
extern "C" fn twice(x: u32) -> u32 { x.wrapping_mul(2) }
#[kani::proof]
fn p_npo_shapes() {
    let mut rec = rec0();
    let (ov, op, wv) = (rec.out_variant, rec.out_payload, rec.wval);
    let which: u8 = kani::any();
    kani::assume(which < 4);
    let some: bool = kani::any();
    let v: u32 = kani::any();
    let mut cell: u64 = kani::any();
    let cell0 = cell;
    let i = imp(&mut rec);
    let icell = i.cell;
    let icellp = &i.cell as *const u64 as usize;
    let obj = trait_obj!(&i as Shapes2);
    match which {
        0 => {
            let nz = core::num::NonZeroU32::new(v | 1);
            let r = obj.npo_nonzero(if some { nz } else { None });
            assert!(rec.variant == some as u8 && (!some || rec.payload == (v | 1) as u64), "C02 Option<NonZeroU32> arrives with the same variant and payload");
            assert!(r.map(|x| x.get()) == if ov == 1 { Some(op as u32 | 1) } else { None }, "C02 Option<NonZeroU32> result returns unchanged");
        }
        1 => {
            if kani::any() {
                obj.npo_mut(if some { Some(&mut cell) } else { None });
                assert!(rec.variant == some as u8, "C02 Option<&mut T> arrives with the same variant");
            } else {
                let r = obj.npo_ref_out();
                assert!((r.is_some()) == (ov == 1), "C02 Option<&T> result keeps its variant");
                if let Some(p) = r { assert!(p as *const u64 as usize == icellp && *p == icell, "C02 returned Option<&T> points at the implementor's value"); }
                kani::assume(!some);
            }
            if some { assert!(rec.ptr == &cell as *const u64 as usize && rec.payload == cell0 && cell == wv, "C02 Option<&mut T> points at the caller's value and the callee's write is visible"); }
            else { assert!(cell == cell0, "C02 nothing written without a reference"); }
        }
        2 => {
            let r = obj.npo_fn(if some { Some(twice) } else { None }, v);
            assert!(rec.variant == some as u8 && (!some || rec.ptr == twice as usize), "C02 Option<extern fn> arrives with the same variant and address");
            assert!(r == if some { v.wrapping_mul(2) } else { v }, "C02 the function pointer that arrived is the one that was sent");
        }
        _ => {
            let e: u8 = kani::any();
            let r = obj.res_unit(if some { Ok(()) } else { Err(e) });
            assert!(rec.variant == !some as u8 && (some || rec.payload == e as u64), "C02 Result<(),E> arrives unchanged");
            assert!(r == if ov == 0 { Ok(()) } else { Err(op as u8) }, "C02 Result<(),E> returns unchanged");
        }
    }
    drop(obj);
    core::mem::forget(i);
    assert!(rec.calls == 1 && rec.tag == 23 + which as u32, "C02 exactly one call of the right method");
    kani::cover!(which == 1 && some && ov == 1, "mut ref in, ref out");
    kani::cover!(which == 2 && some, "fn pointer");
}
//@ prefix=p_val kind=property clause=impl Into<T>, by-value C struct, extreme integers: values arrive and return unchanged
#[kani::proof]
fn p_val_shapes() {
    let mut rec = rec0();
    let (ov, op, wv) = (rec.out_variant, rec.out_payload, rec.wval);
    let which: u8 = kani::any();
    kani::assume(which < 3);
    let s: S3 = kani::any();
    let (a, b, c, d): (u8, i64, u128, usize) = kani::any();
    let v32: u32 = kani::any();
    let obj = trait_obj!(imp(&mut rec) as Shapes);
    match which {
        0 => { obj.into_arg(v32); assert!(rec.payload == v32 as u64 && rec.tag == 12, "C02 impl Into<T> argument is converted once and arrives as T"); }
        1 => {
            let r = obj.by_struct(s);
            assert!(rec.payload == s.a && rec.elem == s.b as u64 | (s.c as u64) << 32 && rec.tag == 13, "C02 by-value struct arrives unchanged");
            assert!(r == S3 { a: op, b: wv as u32, c: ov }, "C02 by-value struct returns unchanged");
        }
        _ => {
            let r = obj.ints(a, b, c, d);
            assert!(rec.variant == a && rec.payload == b as u64 && rec.elem == c as u64 && rec.ptr == (c >> 64) as usize && rec.len == d && rec.tag == 15, "C02 integers of every width arrive unchanged");
            assert!(r == op as i64, "C02 integer result returns unchanged");
        }
    }
    core::mem::forget(obj);
    assert!(rec.calls == 1, "C02 exactly one call");
    kani::cover!(which == 2 && b == i64::MIN && c == u128::MAX, "extreme integers");
}
//@ prefix=p_ret kind=property clause=returned &[T], &str, &mut [T], &T: the caller receives the address, length and contents the implementor produced; writes through a returned &mut [T] land in the implementor's buffer
#[kani::proof]
fn p_ret_views() {
    let mut rec = rec0();
    rec.roff = kani::any();
    rec.rlen = kani::any();
    kani::assume(rec.roff <= 8 && rec.rlen <= 8 - rec.roff);
    let (roff, rlen) = (rec.roff, rec.rlen);
    let which: u8 = kani::any();
    kani::assume(which < 4);
    let mut i = imp(&mut rec);
    let mut k = 0;
    while k < 8 { i.buf[k] &= 0x7f; k += 1; } // ASCII so that ret_str is a valid str
    let buf0 = i.buf;
    let cell0 = i.cell;
    let mut obj = trait_obj!(&mut i as Shapes);
    let j: usize = kani::any();
    kani::assume(j < 8);
    match which {
        0 => { let s = obj.ret_slice(); assert!(s.len() == rlen, "C02 returned slice has the produced length"); if j < rlen { assert!(s[j] == buf0[roff + j], "C02 returned slice has the produced contents"); } }
        1 => { let s = obj.ret_str(); assert!(s.len() == rlen, "C02 returned str has the produced length"); if j < rlen { assert!(s.as_bytes()[j] == buf0[roff + j], "C02 returned str has the produced bytes"); } }
        2 => { let s = obj.ret_mut_slice(); assert!(s.len() == rlen, "C02 returned mutable slice has the produced length"); if j < rlen { s[j] = 0x55; } }
        _ => { let r = obj.ret_ref(); assert!(*r == cell0, "C02 returned reference reads the implementor's value"); }
    }
    drop(obj);
    if which == 0 || which == 1 || which == 2 { let _ = (); }
    if which == 2 && j < rlen { assert!(i.buf[roff + j] == 0x55, "C02 write through the returned &mut [T] lands in the implementor's buffer"); }
    let p = i.buf.as_ptr() as usize;
    core::mem::forget(i);
    assert!(rec.calls == 1 && rec.tag == 16 + which as u32, "C02 exactly one call of the right method");
    let _ = p;
    kani::cover!(which == 1 && rlen == 0, "empty str");
    kani::cover!(which == 2 && j < rlen, "write through returned slice");
}
#[kani::proof]
fn p_ret_addr() {
    let mut rec = rec0();
    rec.roff = kani::any();
    rec.rlen = kani::any();
    kani::assume(rec.roff <= 8 && rec.rlen <= 8 - rec.roff);
    let (roff, _rlen) = (rec.roff, rec.rlen);
    let i = imp(&mut rec);
    let base = i.buf.as_ptr() as usize;
    let cellp = &i.cell as *const u64 as usize;
    let obj = trait_obj!(&i as ShapesRO);
    assert!(obj.ro_slice().as_ptr() as usize == base + roff, "C02 returned slice has the produced address");
    assert!(obj.ro_ref() as *const u64 as usize == cellp, "C02 returned reference has the produced address");
    drop(obj);
    core::mem::forget(i);
}
//@ prefix=p_cb kind=property clause=callbacks and iterators passed as arguments: every item crosses unchanged in both directions, stop requests are honoured
#[kani::proof]
#[kani::unwind(5)]
fn p_cb_it() {
    let mut rec = rec0();
    let (w, o) = (rec.wval as u32, rec.out_payload as u32);
    let which: bool = kani::any();
    let obj = trait_obj!(imp(&mut rec) as Shapes);
    if which {
        let stop_after: u8 = kani::any();
        kani::assume(stop_after < 3);
        let mut seen = [0u32; 2];
        let mut n = 0usize;
        let mut f = |v: u32| { if n < 2 { seen[n] = v; } n += 1; n < stop_after as usize + 1 && stop_after != 0 };
        obj.cb((&mut f).into());
        if stop_after == 0 { assert!(n == 1 && seen[0] == w && rec.variant == 0, "C02 callback item arrives unchanged; a false answer returns unchanged"); }
        else if stop_after == 1 { assert!(n == 2 && seen[0] == w && seen[1] == o && rec.variant == 1, "C02 callback items arrive in order, answers return unchanged"); }
        else { assert!(n == 2 && seen[0] == w && seen[1] == o && rec.variant == 3, "C02 callback items arrive in order, answers return unchanged"); }
    } else {
        let items: [u32; 2] = kani::any();
        let k: usize = kani::any();
        kani::assume(k <= 2);
        let mut src = items[..k].iter().copied();
        obj.it(CIterator::new(&mut src));
        assert!(rec.variant as usize == k, "C02 iterator yields exactly its items across the boundary");
        if k >= 1 { assert!(rec.payload as u32 == items[0], "C02 iterator item crosses unchanged"); }
        if k == 2 { assert!((rec.payload >> 32) as u32 == items[1], "C02 iterator items cross in order"); }
    }
    core::mem::forget(obj);
    kani::cover!(which, "callback");
    kani::cover!(!which, "iterator");
}
/// a source that is NOT fused: yields arr[0], arr[1], arr[2] (each possibly None), then None
struct Gappy { items: [Option<u32>; 3], pos: usize }
impl Iterator for Gappy { type Item = u32; fn next(&mut self) -> Option<u32> { if self.pos < 3 { self.pos += 1; self.items[self.pos - 1] } else { None } } }
#[kani::proof]
#[kani::unwind(5)]
fn p_cb_it_after_end_or_stop() {
    // values keep crossing unchanged AFTER an iterator once reported "no item" (non-fused source)
    // and AFTER a callback once answered "stop"
    let mut rec = rec0();
    let (w, o) = (rec.wval as u32, rec.out_payload as u32);
    let which: bool = kani::any();
    if which {
        let answers: [bool; 3] = kani::any();
        let mut seen = [0u32; 3];
        let mut n = 0usize;
        let mut f = |v: u32| { if n < 3 { seen[n] = v; } n += 1; n <= 3 && answers[n - 1] };
        let obj = trait_obj!(imp(&mut rec) as Shapes2);
        obj.cb_all((&mut f).into());
        core::mem::forget(obj);
        assert!(n == 3 && seen[0] == w && seen[1] == o && seen[2] == w ^ o, "C02 every value passed to a callback arrives unchanged, also after it once answered false");
        assert!(rec.variant == answers[0] as u8 | (answers[1] as u8) << 1 | (answers[2] as u8) << 2, "C02 every answer of the callback returns unchanged");
        kani::cover!(!answers[0] && answers[1], "continue after a stop answer");
    } else {
        let items: [Option<u32>; 3] = kani::any();
        let mut src = Gappy { items, pos: 0 };
        let obj = trait_obj!(imp(&mut rec) as Shapes);
        obj.it(CIterator::new(&mut src));
        core::mem::forget(obj);
        let mask = (items[0].is_some() as usize) | (items[1].is_some() as usize) << 1 | (items[2].is_some() as usize) << 2;
        assert!(rec.len == mask, "C02 an iterator argument yields an item exactly when its source does, also after the source once yielded None");
        assert!(rec.payload as u32 == items[0].unwrap_or(0) && (rec.payload >> 32) as u32 == items[1].unwrap_or(0) && rec.elem as u32 == items[2].unwrap_or(0), "C02 iterator items cross unchanged and in order");
        assert!(src.pos == 3, "C02 the source was polled exactly once per request");
        kani::cover!(items[0].is_none() && items[1].is_some(), "item after a None");
    }
}
//@ prefix=canary kind=canary clause=vacuity canary
#[kani::proof]
fn canary_c02() {
    let mut rec = rec0();
    let a8: [u8; N] = kani::any();
    let (s, _) = sub(&a8);
    let obj = trait_obj!(imp(&mut rec) as Shapes);
    obj.sl_u8(s);
    core::mem::forget(obj);
    assert!(rec.len != 2, "canary: deliberately false");
}

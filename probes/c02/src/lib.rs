//! C02 probe: arguments and results cross the boundary without loss or alteration.
//! The implementor RECORDS exactly what it received (address, length, sampled element, variant,
//! payload) into a record outside the instance; the harness compares the record with what it sent.
#![allow(clippy::all, unused)]
use cglue::callback::OpaqueCallback;
use cglue::iter::CIterator;
use cglue::*;

#[repr(C)]
#[derive(Clone, Copy, PartialEq, Eq, Debug)]
#[cfg_attr(kani, derive(kani::Arbitrary))]
pub struct S3 { pub a: u64, pub b: u32, pub c: u8 }
#[repr(C)]
#[derive(Clone, Copy, PartialEq, Eq, Debug)]
#[cfg_attr(kani, derive(kani::Arbitrary))]
pub struct B3(pub [u8; 3]);

#[derive(Clone, Copy, PartialEq, Eq, Debug, Default)]
pub struct Rec {
    pub calls: u32,
    pub tag: u32,
    pub ptr: usize,
    pub len: usize,
    pub elem: u64,
    pub ptr2: usize,
    pub len2: usize,
    pub variant: u8,
    pub payload: u64,
    // inputs chosen by the harness
    pub idx: usize,
    pub wval: u64,
    pub roff: usize,
    pub rlen: usize,
    pub out_variant: u8,
    pub out_payload: u64,
}
pub struct Imp { pub rec: *mut Rec, pub buf: [u8; 8], pub cell: u64 }
unsafe impl Send for Imp {}
unsafe impl Sync for Imp {}
impl Imp {
    fn r(&self, tag: u32) -> &mut Rec { let r = unsafe { &mut *self.rec }; r.calls = r.calls.wrapping_add(1); r.tag = tag; r }
}

#[cglue_trait]
pub trait Shapes {
    fn sl_u8(&self, s: &[u8]);
    fn sl_u64(&self, s: &[u64]);
    fn sl_zst(&self, s: &[()]);
    fn sl_b3(&self, s: &[B3]);
    fn sl_two(&self, a: &[u8], b: &[u8]);
    fn sl_mut(&mut self, s: &mut [u64]);
    fn st_ref(&self, s: &str);
    fn st_two(&self, a: &str, n: u32, b: &str);
    fn opt_val(&self, o: Option<u32>) -> Option<u32>;
    fn opt_npo(&self, o: Option<&u64>);
    fn res_val(&self, r: Result<u32, u8>) -> Result<u32, u8>;
    fn into_arg(&self, v: impl Into<u64>);
    fn by_struct(&self, s: S3) -> S3;
    fn mut_ref(&self, r: &mut u64);
    fn ints(&self, a: u8, b: i64, c: u128, d: usize) -> i64;
    fn ret_slice(&self) -> &[u8];
    fn ret_str(&self) -> &str;
    fn ret_mut_slice(&mut self) -> &mut [u8];
    fn ret_ref(&self) -> &u64;
    fn cb(&self, cb: OpaqueCallback<u32>);
    fn it(&self, it: CIterator<u32>);
    #[int_result]
    fn int_res(&self, v: u32) -> Result<u32, std::io::Error>;
}
#[cglue_trait]
pub trait Shapes2 {
    fn npo_nonzero(&self, v: Option<core::num::NonZeroU32>) -> Option<core::num::NonZeroU32>;
    fn npo_mut(&self, v: Option<&mut u64>);
    fn npo_ref_out(&self) -> Option<&u64>;
    fn npo_fn(&self, f: Option<extern "C" fn(u32) -> u32>, x: u32) -> u32;
    fn res_unit(&self, r: Result<(), u8>) -> Result<(), u8>;
    /// a method-level integer-result marker, followed by an UNMARKED method with the same error type:
    /// the unmarked one keeps the full error value
    #[int_result]
    fn io_marked(&self, v: u32) -> Result<u32, std::io::Error>;
    fn io_plain_after(&self, v: u32) -> Result<u32, std::io::Error>;
    /// an optional OWNED box in and out: crosses as the C option {tag, {instance, drop function}}
    fn opt_box(&self, b: Option<cglue::boxed::CBox<'static, u64>>) -> Option<cglue::boxed::CBox<'static, u64>>;
    /// calls the callback three times WHATEVER it answers (a `false` is only a request)
    fn cb_all(&self, cb: OpaqueCallback<u32>);
}
impl Shapes for Imp {
    fn sl_u8(&self, s: &[u8]) { let r = self.r(1); r.ptr = s.as_ptr() as usize; r.len = s.len(); if r.idx < s.len() { r.elem = s[r.idx] as u64; } }
    fn sl_u64(&self, s: &[u64]) { let r = self.r(2); r.ptr = s.as_ptr() as usize; r.len = s.len(); if r.idx < s.len() { r.elem = s[r.idx]; } }
    fn sl_zst(&self, s: &[()]) { let r = self.r(3); r.ptr = s.as_ptr() as usize; r.len = s.len(); }
    fn sl_b3(&self, s: &[B3]) { let r = self.r(4); r.ptr = s.as_ptr() as usize; r.len = s.len(); if r.idx < s.len() { let b = s[r.idx].0; r.elem = b[0] as u64 | (b[1] as u64) << 8 | (b[2] as u64) << 16; } }
    fn sl_two(&self, a: &[u8], b: &[u8]) { let r = self.r(5); r.ptr = a.as_ptr() as usize; r.len = a.len(); r.ptr2 = b.as_ptr() as usize; r.len2 = b.len(); }
    fn sl_mut(&mut self, s: &mut [u64]) { let r = self.r(6); r.ptr = s.as_ptr() as usize; r.len = s.len(); if r.idx < s.len() { r.elem = s[r.idx]; s[r.idx] = r.wval; } }
    fn st_ref(&self, s: &str) { let r = self.r(7); r.ptr = s.as_ptr() as usize; r.len = s.len(); if r.idx < s.len() { r.elem = s.as_bytes()[r.idx] as u64; } }
    fn st_two(&self, a: &str, n: u32, b: &str) { let r = self.r(8); r.ptr = a.as_ptr() as usize; r.len = a.len(); r.ptr2 = b.as_ptr() as usize; r.len2 = b.len(); r.payload = n as u64; }
    fn opt_val(&self, o: Option<u32>) -> Option<u32> { let r = self.r(9); r.variant = o.is_some() as u8; r.payload = o.unwrap_or(0) as u64; if r.out_variant == 1 { Some(r.out_payload as u32) } else { None } }
    fn opt_npo(&self, o: Option<&u64>) { let r = self.r(10); r.variant = o.is_some() as u8; r.ptr = o.map(|p| p as *const u64 as usize).unwrap_or(0); r.payload = o.copied().unwrap_or(0); }
    fn res_val(&self, x: Result<u32, u8>) -> Result<u32, u8> { let r = self.r(11); match x { Ok(v) => { r.variant = 0; r.payload = v as u64 } Err(e) => { r.variant = 1; r.payload = e as u64 } } if r.out_variant == 0 { Ok(r.out_payload as u32) } else { Err(r.out_payload as u8) } }
    fn into_arg(&self, v: impl Into<u64>) { let r = self.r(12); r.payload = v.into(); }
    fn by_struct(&self, s: S3) -> S3 { let r = self.r(13); r.payload = s.a; r.elem = s.b as u64 | (s.c as u64) << 32; S3 { a: r.out_payload, b: r.wval as u32, c: r.out_variant } }
    fn mut_ref(&self, x: &mut u64) { let r = self.r(14); r.ptr = x as *mut u64 as usize; r.payload = *x; *x = r.wval; }
    fn ints(&self, a: u8, b: i64, c: u128, d: usize) -> i64 { let r = self.r(15); r.variant = a; r.payload = b as u64; r.elem = c as u64; r.ptr = (c >> 64) as usize; r.len = d; r.out_payload as i64 }
    fn ret_slice(&self) -> &[u8] { let r = self.r(16); &self.buf[r.roff..r.roff + r.rlen] }
    fn ret_str(&self) -> &str { let r = self.r(17); unsafe { core::str::from_utf8_unchecked(&self.buf[r.roff..r.roff + r.rlen]) } }
    fn ret_mut_slice(&mut self) -> &mut [u8] { let (o, l) = { let r = self.r(18); (r.roff, r.rlen) }; &mut self.buf[o..o + l] }
    fn ret_ref(&self) -> &u64 { let _ = self.r(19); &self.cell }
    fn cb(&self, mut cb: OpaqueCallback<u32>) { let r = self.r(20); let a = cb.call(r.wval as u32); let b = if a { cb.call(r.out_payload as u32) } else { false }; r.variant = a as u8 | (b as u8) << 1; }
    fn int_res(&self, v: u32) -> Result<u32, std::io::Error> { let r = self.r(22); r.payload = v as u64; if r.out_variant == 0 { Ok(r.out_payload as u32) } else { Err(std::io::Error::from_raw_os_error(r.wval as i32)) } }
    fn it(&self, mut it: CIterator<u32>) { let r = self.r(21); let a = it.next(); let b = it.next(); let c = it.next(); r.variant = a.is_some() as u8 + b.is_some() as u8 + c.is_some() as u8; r.payload = a.unwrap_or(0) as u64 | (b.unwrap_or(0) as u64) << 32; r.len = (a.is_some() as usize) | (b.is_some() as usize) << 1 | (c.is_some() as usize) << 2; r.elem = c.unwrap_or(0) as u64; }
}

impl Shapes2 for Imp {
    fn npo_nonzero(&self, v: Option<core::num::NonZeroU32>) -> Option<core::num::NonZeroU32> { let r = self.r(23); r.variant = v.is_some() as u8; r.payload = v.map(|x| x.get()).unwrap_or(0) as u64; if r.out_variant == 1 { core::num::NonZeroU32::new(r.out_payload as u32 | 1) } else { None } }
    fn npo_mut(&self, v: Option<&mut u64>) { let r = self.r(24); r.variant = v.is_some() as u8; if let Some(x) = v { r.ptr = x as *mut u64 as usize; r.payload = *x; *x = r.wval; } }
    fn npo_ref_out(&self) -> Option<&u64> { let r = self.r(24); if r.out_variant == 1 { Some(&self.cell) } else { None } }
    fn npo_fn(&self, f: Option<extern "C" fn(u32) -> u32>, x: u32) -> u32 { let r = self.r(25); r.variant = f.is_some() as u8; r.ptr = f.map(|p| p as usize).unwrap_or(0); match f { Some(g) => g(x), None => x } }
    fn io_marked(&self, v: u32) -> Result<u32, std::io::Error> { let r = self.r(28); r.payload = v as u64; if r.out_variant == 0 { Ok(r.out_payload as u32) } else { Err(std::io::Error::from_raw_os_error(r.wval as i32 | 1)) } }
    fn io_plain_after(&self, v: u32) -> Result<u32, std::io::Error> { let r = self.r(29); r.payload = v as u64; if r.out_variant == 0 { Ok(r.out_payload as u32) } else { Err(std::io::ErrorKind::NotFound.into()) } }
    fn opt_box(&self, b: Option<cglue::boxed::CBox<'static, u64>>) -> Option<cglue::boxed::CBox<'static, u64>> { let r = self.r(33); r.variant = b.is_some() as u8; if let Some(x) = &b { r.ptr = &**x as *const u64 as usize; r.payload = **x; } if r.out_variant == 1 { b } else { None } }
    fn cb_all(&self, mut cb: OpaqueCallback<u32>) { let r = self.r(27); let (w, o) = (r.wval as u32, r.out_payload as u32); let a = cb.call(w); let b = cb.call(o); let c = cb.call(w ^ o); r.variant = a as u8 | (b as u8) << 1 | (c as u8) << 2; }
    fn res_unit(&self, x: Result<(), u8>) -> Result<(), u8> { let r = self.r(26); match x { Ok(()) => { r.variant = 0 } Err(e) => { r.variant = 1; r.payload = e as u64 } } if r.out_variant == 0 { Ok(()) } else { Err(r.out_payload as u8) } }
}

/// builtin external trait with a string argument and an integer-coded result
impl core::fmt::Write for Imp {
    fn write_str(&mut self, s: &str) -> core::fmt::Result { let r = self.r(40); r.ptr = s.as_ptr() as usize; r.len = s.len(); if r.idx < s.len() { r.elem = s.as_bytes()[r.idx] as u64; } if r.out_variant == 0 { Ok(()) } else { Err(core::fmt::Error) } }
}
/// builtin external formatting traits: the implementor writes three pieces — short, long (70
/// bytes), short — or fails after the second
pub const LONG_PIECE: &str = "0123456789abcdefghijklmnopqrstuvwxyzABCDEFGHIJKLMNOPQRSTUVWXYZ-+*/=<>!";
impl core::fmt::Display for Imp {
    fn fmt(&self, f: &mut core::fmt::Formatter) -> core::fmt::Result { let r = self.r(43); f.write_str("a\u{df}")?; f.write_str(LONG_PIECE)?; if r.out_variant != 0 { return Err(core::fmt::Error); } f.write_str("yz") }
}
impl core::fmt::Debug for Imp {
    fn fmt(&self, f: &mut core::fmt::Formatter) -> core::fmt::Result { let _ = self.r(44); f.write_str("D:")?; f.write_str(LONG_PIECE)?; f.write_str("!") }
}
/// builtin external trait handing out a mutable reference
impl AsMut<u64> for Imp { fn as_mut(&mut self) -> &mut u64 { let _ = self.r(41); &mut self.cell } }

#[cfg(kani)]
mod verif;

/// shared-receiver returns, usable behind `&Imp` (address identity of returned views)
#[cglue_trait]
pub trait ShapesRO {
    fn ro_slice(&self) -> &[u8];
    fn ro_ref(&self) -> &u64;
}
impl ShapesRO for Imp {
    fn ro_slice(&self) -> &[u8] { let r = self.r(30); &self.buf[r.roff..r.roff + r.rlen] }
    fn ro_ref(&self) -> &u64 { let _ = self.r(31); &self.cell }
}

#!/usr/bin/env python3
"""Generates the C02 grammar probe: every auto-converted argument shape in every argument POSITION
(first / middle / last among scalar fillers) under every receiver kind, plus every return shape under
both reference receivers.  One trait per (shape, receiver) with three methods (one per position); the
implementor records what it received; one harness per trait picks the position symbolically."""
import sys, os

RECV = {"r": "&self", "m": "&mut self", "v": "self"}
# shape: (type in signature, impl-side recording code (value named x), harness setup, harness argument expr, harness expectation)
SHAPES = {
 "sl8":  ("&[u8]",  "r.ptr = x.as_ptr() as usize; r.len = x.len(); if r.idx < x.len() { r.elem = x[r.idx] as u64; }",
          "let arr: [u8; 5] = kani::any(); let (off, len): (usize, usize) = kani::any(); kani::assume(off <= 5 && len <= 5 - off); let sl = &arr[off..off + len]; let (ep, el, ee) = (sl.as_ptr() as usize, sl.len(), if idx < sl.len() { sl[idx] as u64 } else { 0 });",
          "sl", 'assert!(rec.ptr == ep && rec.len == el && rec.elem == ee, "C02 &[u8] arrives with the same address, length and elements");'),
 "sl64": ("&[u64]", "r.ptr = x.as_ptr() as usize; r.len = x.len(); if r.idx < x.len() { r.elem = x[r.idx]; }",
          "let arr: [u64; 4] = kani::any(); let (off, len): (usize, usize) = kani::any(); kani::assume(off <= 4 && len <= 4 - off); let sl = &arr[off..off + len]; let (ep, el, ee) = (sl.as_ptr() as usize, sl.len(), if idx < sl.len() { sl[idx] } else { 0 });",
          "sl", 'assert!(rec.ptr == ep && rec.len == el && rec.elem == ee, "C02 &[u64] arrives with the same address, length and elements");'),
 "slm":  ("&mut [u64]", "r.ptr = x.as_ptr() as usize; r.len = x.len(); if r.idx < x.len() { r.elem = x[r.idx]; x[r.idx] = r.wval; }",
          "let mut arr: [u64; 4] = kani::any(); let orig = arr; let (off, len): (usize, usize) = kani::any(); kani::assume(off <= 4 && len <= 4 - off); let ep = arr[off..].as_ptr() as usize;",
          "&mut arr[off..off + len]", 'assert!(rec.ptr == ep && rec.len == len, "C02 &mut [u64] arrives with the same address and length"); let j: usize = kani::any(); kani::assume(j < 4); if idx < len && j == off + idx { assert!(rec.elem == orig[j] && arr[j] == wval, "C02 the callee\'s write through &mut [u64] is visible to the caller"); } else { assert!(arr[j] == orig[j], "C02 nothing else is modified"); }'),
 "st":   ("&str", "r.ptr = x.as_ptr() as usize; r.len = x.len(); if r.idx < x.len() { r.elem = x.as_bytes()[r.idx] as u64; }",
          'let text = "a\\u{df}\\u{20ac}b"; let bounds = [0usize, 1, 3, 6, 7]; let (i0, i1): (usize, usize) = kani::any(); kani::assume(i0 <= i1 && i1 < 5); let sl = &text[bounds[i0]..bounds[i1]]; let (ep, el, ee) = (sl.as_ptr() as usize, sl.len(), if idx < sl.len() { sl.as_bytes()[idx] as u64 } else { 0 });',
          "sl", 'assert!(rec.ptr == ep && rec.len == el && rec.elem == ee, "C02 &str arrives with the same address, byte length and bytes");'),
 "opt":  ("Option<u32>", "r.variant = x.is_some() as u8; r.payload = x.unwrap_or(0) as u64;",
          "let (some, pv): (bool, u32) = kani::any();", "if some { Some(pv) } else { None }",
          'assert!(rec.variant == some as u8 && (!some || rec.payload == pv as u64), "C02 Option<u32> arrives with the same variant and payload");'),
 "optr": ("Option<&u64>", "r.variant = x.is_some() as u8; r.ptr = x.map(|p| p as *const u64 as usize).unwrap_or(0); r.payload = x.copied().unwrap_or(0);",
          "let (some, cell): (bool, u64) = kani::any();", "if some { Some(&cell) } else { None }",
          'assert!(rec.variant == some as u8 && (!some || (rec.ptr == &cell as *const u64 as usize && rec.payload == cell)), "C02 Option<&u64> arrives with the same variant and address");'),
 "res":  ("Result<u32, u8>", "match x { Ok(v) => { r.variant = 0; r.payload = v as u64 } Err(e) => { r.variant = 1; r.payload = e as u64 } }",
          "let (okv, pv, ev): (bool, u32, u8) = kani::any();", "if okv { Ok(pv) } else { Err(ev) }",
          'assert!(rec.variant == !okv as u8 && rec.payload == if okv { pv as u64 } else { ev as u64 }, "C02 Result<u32,u8> arrives with the same variant and payload");'),
 "into": ("impl Into<u64>", "r.payload = x.into();",
          "let pv: u32 = kani::any();", "pv", 'assert!(rec.payload == pv as u64, "C02 impl Into<u64> is converted once and arrives as u64");'),
 "s3":   ("S3", "r.payload = x.a; r.elem = x.b as u64;",
          "let sv: S3 = kani::any();", "sv", 'assert!(rec.payload == sv.a && rec.elem == sv.b as u64, "C02 by-value struct arrives unchanged");'),
 "mref": ("&mut u64", "r.ptr = x as *mut u64 as usize; r.payload = *x; *x = r.wval;",
          "let mut cell: u64 = kani::any(); let cell0 = cell; let ep = &cell as *const u64 as usize;", "&mut cell",
          'assert!(rec.ptr == ep && rec.payload == cell0 && cell == wval, "C02 &mut u64 points at the caller\'s value and the callee\'s write is visible");'),
 "bool": ("bool", "r.variant = x as u8;", "let bv: bool = kani::any();", "bv", 'assert!(rec.variant == bv as u8, "C02 bool arrives unchanged");'),
 "chr":  ("char", "r.payload = x as u64;", "let cv: char = kani::any();", "cv", 'assert!(rec.payload == cv as u64, "C02 char arrives unchanged");'),
 "u128": ("u128", "r.payload = x as u64; r.elem = (x >> 64) as u64;", "let wv: u128 = kani::any();", "wv", 'assert!(rec.payload == wv as u64 && rec.elem == (wv >> 64) as u64, "C02 u128 arrives unchanged (both halves)");'),
 "i128": ("i128", "r.payload = x as u64; r.elem = (x >> 64) as u64;", "let wv: i128 = kani::any();", "wv", 'assert!(rec.payload == wv as u64 && rec.elem == (wv >> 64) as u64, "C02 i128 arrives unchanged (both halves)");'),
 "f64":  ("f64", "r.payload = x.to_bits();", "let fbits: u64 = kani::any(); let fv = f64::from_bits(fbits);", "fv", 'assert!(rec.payload == fbits, "C02 f64 arrives with the same bits");'),
 "arr":  ("[u32; 3]", "r.payload = x[0] as u64 | (x[1] as u64) << 32; r.elem = x[2] as u64;", "let av: [u32; 3] = kani::any();", "av", 'assert!(rec.payload == av[0] as u64 | (av[1] as u64) << 32 && rec.elem == av[2] as u64, "C02 array by value arrives unchanged");'),
 "tup":  ("cglue::tuple::CTup2<u32, u64>", "r.payload = x.0 as u64; r.elem = x.1;", "let (t0, t1): (u32, u64) = kani::any();", "cglue::tuple::CTup2(t0, t1)", 'assert!(rec.payload == t0 as u64 && rec.elem == t1, "C02 C tuple arrives unchanged, fields in order");'),
 "optm": ("Option<&mut u64>", "r.variant = x.is_some() as u8; if let Some(p) = x { r.ptr = p as *mut u64 as usize; r.payload = *p; *p = r.wval; }",
          "let (some, mut cell): (bool, u64) = kani::any(); let cell0 = cell; let ep = &cell as *const u64 as usize;", "if some { Some(&mut cell) } else { None }",
          'assert!(rec.variant == some as u8 && (!some || (rec.ptr == ep && rec.payload == cell0 && cell == wval)) && (some || cell == cell0), "C02 Option<&mut u64> arrives with the same variant and address; the callee\'s write is visible");'),
 "optres": ("Option<Result<u32, u8>>", "r.variant = match &x { None => 0, Some(Ok(_)) => 1, Some(Err(_)) => 2 }; r.payload = match x { None => 0, Some(Ok(v)) => v as u64, Some(Err(e)) => e as u64 };",
          "let (k, pv, ev): (u8, u32, u8) = kani::any(); kani::assume(k < 3);", "match k { 0 => None, 1 => Some(Ok(pv)), _ => Some(Err(ev)) }",
          'assert!(rec.variant == k && rec.payload == match k { 0 => 0, 1 => pv as u64, _ => ev as u64 }, "C02 nested Option<Result<..>> arrives with the same variants and payload");'),
 "optsl": ("Option<&[u8]>", "r.variant = x.is_some() as u8; if let Some(sl) = x { r.ptr = sl.as_ptr() as usize; r.len = sl.len(); if r.idx < sl.len() { r.elem = sl[r.idx] as u64; } }",
          "let arr: [u8; 4] = kani::any(); let (some, off, len): (bool, usize, usize) = kani::any(); kani::assume(off <= 4 && len <= 4 - off); let sl = &arr[off..off + len]; let (ep, el, ee) = (sl.as_ptr() as usize, sl.len(), if idx < sl.len() { sl[idx] as u64 } else { 0 });",
          "if some { Some(sl) } else { None }",
          'assert!(rec.variant == some as u8 && (!some || (rec.ptr == ep && rec.len == el && rec.elem == ee)), "C02 Option<&[u8]> arrives with the same variant, address, length and elements (Some(empty) stays Some)"); kani::cover!(some && el == 0, "Some(empty slice)");'),
 "optst": ("Option<&str>", "r.variant = x.is_some() as u8; if let Some(sl) = x { r.ptr = sl.as_ptr() as usize; r.len = sl.len(); }",
          'let text = "a\\u{df}b"; let bounds = [0usize, 1, 3, 4]; let (some, i0, i1): (bool, usize, usize) = kani::any(); kani::assume(i0 <= i1 && i1 < 4); let sl = &text[bounds[i0]..bounds[i1]]; let (ep, el) = (sl.as_ptr() as usize, sl.len());',
          "if some { Some(sl) } else { None }",
          'assert!(rec.variant == some as u8 && (!some || (rec.ptr == ep && rec.len == el)), "C02 Option<&str> arrives with the same variant, address and byte length (an empty Some stays Some)"); kani::cover!(some && el == 0, "Some(empty string)");'),
}
QUICK_SKIP = {"chr", "i128", "f64", "tup", "optres"}
RETS = {
 "rsl":  ("&[u8]", "&self.buf[r.roff..r.roff + r.rlen]", 'assert!(ret.as_ptr() as usize == bufp + roff && ret.len() == rlen, "C02 returned &[u8] has the produced address and length");'),
 "rst":  ("&str", "unsafe { core::str::from_utf8_unchecked(&self.buf[r.roff..r.roff + r.rlen]) }", 'assert!(ret.as_ptr() as usize == bufp + roff && ret.len() == rlen, "C02 returned &str has the produced address and length");'),
 "ropt": ("Option<u32>", "if r.out_variant == 1 { Some(r.out_payload as u32) } else { None }", 'assert!(ret == if ov == 1 { Some(op as u32) } else { None }, "C02 Option<u32> result returns unchanged");'),
 "rres": ("Result<u32, u8>", "if r.out_variant == 0 { Ok(r.out_payload as u32) } else { Err(r.out_payload as u8) }", 'assert!(ret == if ov == 0 { Ok(op as u32) } else { Err(op as u8) }, "C02 Result<u32,u8> result returns unchanged");'),
 "rs3":  ("S3", "S3 { a: r.out_payload, b: r.wval as u32 }", 'assert!(ret == S3 { a: op, b: wval as u32 }, "C02 by-value struct result returns unchanged");'),
 "ropr": ("Option<&u64>", "if r.out_variant == 1 { Some(&self.cell) } else { None }", 'assert!(ret.is_some() == (ov == 1) && ret.map(|p| p as *const u64 as usize == cellp).unwrap_or(true), "C02 Option<&u64> result returns unchanged");'),
 "rbool": ("bool", "r.out_variant == 1", 'assert!(ret == (ov == 1), "C02 bool result returns unchanged");'),
 "ru128": ("u128", "(r.out_payload as u128) << 64 | r.wval as u128", 'assert!(ret == (op as u128) << 64 | wval as u128, "C02 u128 result returns unchanged (both halves)");'),
 "rtup": ("cglue::tuple::CTup2<u32, u64>", "cglue::tuple::CTup2(r.wval as u32, r.out_payload)", 'assert!(ret.0 == wval as u32 && ret.1 == op, "C02 C tuple result returns unchanged, fields in order");'),
 "rarr": ("[u32; 3]", "[r.wval as u32, r.out_payload as u32, r.out_variant as u32]", 'assert!(ret == [wval as u32, op as u32, ov as u32], "C02 array result returns unchanged");'),
}
QUICK_SKIP_RET = {"rtup", "rarr"}


def gen(tier):
    out = ["// generated by gen.py -- do not edit\nuse super::*;\n"]
    hs = ["// generated by gen.py -- do not edit\nuse super::*;\nuse super::super::generated::*;\n"]
    tag = 0
    for sh, (ty, record, setup, argexpr, expect) in SHAPES.items():
        for rk, recv in RECV.items():
            if tier == "quick" and rk == "v" and sh in ("sl64", "optr", "s3"):
                continue
            if tier == "quick" and (sh in QUICK_SKIP or (sh in ("bool", "u128", "arr", "optm", "optsl", "optst") and rk != "r")):
                continue
            name = f"A_{sh}_{rk}"
            lt = "<'a>" if False else ""
            decls, impls, arms = [], [], []
            for pos in range(3):
                tag += 1
                params = ["a: u64", "b: u32"]
                params.insert(pos, f"x: {ty}")
                m = f"p{pos}"
                decls.append(f"    fn {m}({recv}, {', '.join(params)});")
                impls.append(f"    fn {m}({recv}, {', '.join(params)}) {{ let r = self.r({tag}); r.fa = a; r.fb = b; {record} }}")
                args = ["fa", "fb"]
                args.insert(pos, argexpr)
                arms.append((pos, tag, f"obj.{m}({', '.join(args)})"))
            out.append(f"#[cglue_trait]\npub trait {name} {{\n" + "\n".join(decls) + "\n}\n" + f"impl {name} for Imp {{\n" + "\n".join(impls) + "\n}\n")
            mk = "let mut obj" if rk == "m" else "let obj"
            calls = " ".join(f"{p} => {{ {c}; {t} }}" for p, t, c in arms[:-1]) + f" _ => {{ {arms[-1][2]}; {arms[-1][1]} }}"
            forget = "" if rk == "v" else "    core::mem::forget(obj);\n"
            hs.append(f"""
#[kani::proof]
fn p_arg_{sh}_{rk}() {{
    let mut rec = rec0();
    let (idx, wval) = (rec.idx, rec.wval);
    let (fa, fb): (u64, u32) = kani::any();
    let pos: u8 = kani::any();
    kani::assume(pos < 3);
    {setup}
    {mk} = trait_obj!(imp(&mut rec) as {name});
    let tag: u32 = match pos {{ {calls} }};
{forget}    assert!(rec.calls == 1 && rec.tag == tag, "C02 exactly one call of the right method");
    assert!(rec.fa == fa && rec.fb == fb, "C02 the scalar arguments around the converted one arrive unchanged, in order");
    {expect}
    kani::cover!(pos == 0, "first position");
    kani::cover!(pos == 2, "last position");
}}""")
    for rsh, (ty, produce, expect) in RETS.items():
        for rk, recv in (("r", "&self"), ("m", "&mut self")):
            if tier == "quick" and rk == "m" and rsh in ("ropt", "rs3"):
                continue
            if tier == "quick" and (rsh in QUICK_SKIP_RET or (rsh in ("rbool", "ru128") and rk == "m")):
                continue
            tag += 1
            name = f"R_{rsh}_{rk}"
            out.append(f"#[cglue_trait]\npub trait {name} {{\n    fn get({recv}, a: u64) -> {ty};\n}}\nimpl {name} for Imp {{\n    fn get({recv}, a: u64) -> {ty} {{ let r = self.r({tag}); r.fa = a; {produce} }}\n}}\n")
            cont = "&mut i" if rk == "m" else "&i"
            mk = "let mut obj" if rk == "m" else "let obj"
            hs.append(f"""
#[kani::proof]
fn p_ret_{rsh}_{rk}() {{
    let mut rec = rec0();
    rec.roff = kani::any();
    rec.rlen = kani::any();
    kani::assume(rec.roff <= 8 && rec.rlen <= 8 - rec.roff);
    let (roff, rlen, ov, op, wval) = (rec.roff, rec.rlen, rec.out_variant, rec.out_payload, rec.wval);
    let fa: u64 = kani::any();
    let mut i = imp(&mut rec);
    let mut k = 0;
    while k < 8 {{ i.buf[k] &= 0x7f; k += 1; }}
    let bufp = i.buf.as_ptr() as usize;
    let cellp = &i.cell as *const u64 as usize;
    {{
        {mk} = trait_obj!({cont} as {name});
        let ret = obj.get(fa);
        {expect}
    }}
    core::mem::forget(i);
    assert!(rec.calls == 1 && rec.tag == {tag} && rec.fa == fa, "C02 exactly one call of the right method, scalar argument unchanged");
}}""")
    r0 = "A_sl8_r"
    hs.append(f"""
#[kani::proof]
fn canary_c02g() {{
    let mut rec = rec0();
    let arr = [1u8, 2, 3];
    let obj = trait_obj!(imp(&mut rec) as {r0});
    obj.p1(7, &arr[..], 9);
    core::mem::forget(obj);
    assert!(rec.len == 2, "canary: deliberately false");
}}""")
    here = os.path.dirname(os.path.abspath(__file__))
    os.makedirs(os.path.join(here, "src", "verif"), exist_ok=True)
    open(os.path.join(here, "src", "generated.rs"), "w").write("\n".join(out) + "\n")
    open(os.path.join(here, "src", "verif", "harnesses.rs"), "w").write("\n".join(hs) + "\n")
    return len(hs) - 1


if __name__ == "__main__":
    print(gen(sys.argv[1] if len(sys.argv) > 1 else "quick"), "harnesses")

//! C02 grammar probe (generated): see gen.py.
#![allow(clippy::all, unused, non_camel_case_types)]
use cglue::*;

#[repr(C)]
#[derive(Clone, Copy, PartialEq, Eq, Debug)]
#[cfg_attr(kani, derive(kani::Arbitrary))]
pub struct S3 { pub a: u64, pub b: u32 }

#[derive(Clone, Copy, PartialEq, Eq, Debug, Default)]
pub struct Rec {
    pub calls: u32, pub tag: u32, pub ptr: usize, pub len: usize, pub elem: u64, pub variant: u8, pub payload: u64,
    pub fa: u64, pub fb: u32,
    pub idx: usize, pub wval: u64, pub roff: usize, pub rlen: usize, pub out_variant: u8, pub out_payload: u64,
}
pub struct Imp { pub rec: *mut Rec, pub buf: [u8; 8], pub cell: u64 }
unsafe impl Send for Imp {}
unsafe impl Sync for Imp {}
impl Imp {
    pub fn r(&self, tag: u32) -> &mut Rec { let r = unsafe { &mut *self.rec }; r.calls = r.calls.wrapping_add(1); r.tag = tag; r }
}
pub mod generated;

#[cfg(kani)]
mod verif {
    use super::*;
    pub fn imp(rec: &mut Rec) -> Imp { Imp { rec, buf: kani::any(), cell: kani::any() } }
    pub fn rec0() -> Rec {
        let mut r = Rec::default();
        r.idx = kani::any();
        r.wval = kani::any();
        r.out_variant = kani::any();
        r.out_payload = kani::any();
        kani::assume(r.out_variant < 2);
        r
    }
    //@ prefix=p_arg kind=property clause=grammar probe: the converted argument shape in first / middle / last position under the given receiver arrives exactly as sent (address, length, sampled element, variant, payload; callee writes visible), the scalar arguments around it arrive unchanged and in order, exactly one call of the right method
    //@ prefix=p_ret kind=property clause=grammar probe: the converted return shape under the given receiver returns exactly what the implementor produced
    //@ prefix=canary kind=canary clause=vacuity canary
    mod harnesses;
}

use super::*;
use cglue::arc::{CArc, CArcSome};
use cglue::boxed::{CBox, CSliceBox};
use cglue::forward::Fwd;
use cglue::trait_group::{c_void, CGlueObjContainer, GetContainer, NoContext, Opaquable};
use core::mem::{align_of, size_of};
use cglue_macro::check;

const W: usize = core::mem::size_of::<usize>();
fn words<T>(t: &T) -> [usize; 12] {
    let n = size_of::<T>() / W;
    assert!(n <= 12 && size_of::<T>() % W == 0);
    let mut w = [0usize; 12];
    let p = t as *const T as *const usize;
    let mut i = 0;
    while i < 12 { if i < n { w[i] = unsafe { *p.add(i) }; } i += 1; }
    w
}
fn same(a: [usize; 12], b: [usize; 12]) -> bool {
    let mut ok = true;
    let mut i = 0;
    while i < 12 { if a[i] != b[i] { ok = false; } i += 1; }
    ok
}

type BoxCont = CGlueObjContainer<CBox<'static, Imp>, NoContext, TzedRetTmp<NoContext>>;

//@ prefix=p_vtbl kind=property clause=the vtable of a trait is exactly one function pointer per method, in DECLARATION order (not name order)
#[kani::proof]
#[kani::unwind(14)]
fn p_vtbl_decl_order() {
    assert!(size_of::<TzedVtbl<BoxCont>>() == 5 * W, "C04 vtable holds exactly one pointer per method");
    assert!(align_of::<TzedVtbl<BoxCont>>() == W);
    let v = <&TzedVtbl<BoxCont>>::default();
    let w = words(v);
    assert!(w[0] == v.z2() as usize, "C04 slot 0 is the first declared method");
    assert!(w[1] == v.a1() as usize, "C04 slot 1 is the second declared method");
    assert!(w[2] == v.m3() as usize, "C04 slot 2 is the third declared method");
    assert!(w[3] == v.b0() as usize, "C04 slot 3 is the fourth declared method");
    assert!(w[4] == v.a0() as usize, "C04 slot 4 is the fifth declared method");
    assert!(w[0] != w[1] && w[1] != w[4] && w[0] != w[4], "C04 same-signature methods have distinct entries");
    assert!(size_of::<TbopVtbl<CGlueObjContainer<CBox<'static, Imp>, NoContext, TbopRetTmp<NoContext>>>>() == 2 * W);
    // the entries really are the methods they are named after
    let obj = trait_obj!(Imp { v: 40 } as Tzed);
    let c = obj.ccont_ref();
    let vt = obj.get_vtbl();
    assert!(unsafe { (vt.z2())(c) } == 41 && unsafe { (vt.a1())(c) } == 42 && unsafe { (vt.a0())(c) } == 45, "C04 each slot dispatches to the method of its name");
    kani::cover!(true, "end");
}

#[kani::proof]
#[kani::unwind(14)]
fn p_vtbl_only_slot() {
    type C = CGlueObjContainer<CBox<'static, Imp>, NoContext, TvoRetTmp<NoContext>>;
    assert!(size_of::<TvoVtbl<C>>() == 3 * W, "C04 a C-side-only method is still one slot of the vtable");
    let v = <&TvoVtbl<C>>::default();
    let w = words(v);
    assert!(w[0] == v.vo_first() as usize && w[1] == v.vo_second() as usize && w[2] == v.vo_third() as usize, "C04 vtable slots follow declaration order, including #[vtbl_only] methods");
    let obj = trait_obj!(Imp { v: 100 } as Tvo);
    let c = obj.ccont_ref();
    let vt = obj.get_vtbl();
    let wv = words(vt);
    let mut f = vt.vo_first();
    f = unsafe { core::mem::transmute(wv[0]) };
    assert!(unsafe { f(c) } == 100 ^ 11, "C04 slot 0 reaches the first declared method");
    f = unsafe { core::mem::transmute(wv[1]) };
    assert!(unsafe { f(c) } == 100 ^ 12, "C04 slot 1 reaches the second declared method (the #[vtbl_only] one)");
    f = unsafe { core::mem::transmute(wv[2]) };
    assert!(unsafe { f(c) } == 100 ^ 13, "C04 slot 2 reaches the third declared method");
    kani::cover!(true, "end");
}

#[kani::proof]
#[kani::unwind(14)]
fn p_vtbl_where_sized_slot() {
    type C = CGlueObjContainer<CBox<'static, Imp>, NoContext, TwhRetTmp<NoContext>>;
    assert!(size_of::<TwhVtbl<C>>() == 3 * W, "C04 a provided method with a where clause is exported: one slot per exported method");
    let v = <&TwhVtbl<C>>::default();
    let w = words(v);
    // (the where-clause method's getter is deliberately not named: were its slot dropped, this
    // harness must still compile and fail on the size / order obligations)
    assert!(w[0] == v.wh_first() as usize && w[2] == v.wh_third() as usize && w[1] != 0 && w[1] != w[0] && w[1] != w[2], "C04 vtable slots follow declaration order, including a where-clause method");
    let obj = trait_obj!(Imp { v: 100 } as Twh);
    let c = obj.ccont_ref();
    let wv = words(obj.get_vtbl());
    let mut f = obj.get_vtbl().wh_first();
    f = unsafe { core::mem::transmute(wv[2]) };
    assert!(unsafe { f(c) } == 100 ^ 33, "C04 slot 2 reaches the third declared method");
    fn call_slot<Cn>(w: usize, c: &Cn, k: u64) -> u64 { let g: unsafe extern "C" fn(&Cn, u64) -> u64 = unsafe { core::mem::transmute(w) }; unsafe { g(c, k) } }
    assert!(call_slot(wv[1], c, 5) == 100 ^ 32 ^ 5, "C04 slot 1 reaches the implementor's where-clause method");
    kani::cover!(true, "end");
}
#[kani::proof]
#[kani::unwind(14)]
fn p_vtbl_skip_func() {
    type C = CGlueObjContainer<CBox<'static, Imp>, NoContext, TskRetTmp<NoContext>>;
    assert!(size_of::<TskVtbl<C>>() == 2 * W, "C04 exactly one function pointer per EXPORTED method: a #[skip_func] method has no slot");
    let v = <&TskVtbl<C>>::default();
    let w = words(v);
    assert!(w[0] == v.sk_first() as usize && w[1] == v.sk_third() as usize, "C04 vtable slots follow declaration order around a skipped method");
    let obj = trait_obj!(Imp { v: 100 } as Tsk);
    let c = obj.ccont_ref();
    let wv = words(obj.get_vtbl());
    let mut f = obj.get_vtbl().sk_first();
    f = unsafe { core::mem::transmute(wv[0]) };
    assert!(unsafe { f(c) } == 100 ^ 21, "C04 slot 0 reaches the first declared method");
    f = unsafe { core::mem::transmute(wv[1]) };
    assert!(unsafe { f(c) } == 100 ^ 23, "C04 slot 1 reaches the next exported method after the skipped one");
    kani::cover!(true, "end");
}

//@ prefix=p_obj kind=property clause=a single-trait object is {vtable pointer, instance, context, temporary storage}
#[kani::proof]
#[kani::unwind(14)]
fn p_obj_words() {
    let x: u64 = kani::any();
    let ctx = CArc::from(x);
    let wctx = words(&ctx);
    let b = CBox::from(Imp { v: x });
    let wb = words(&b);
    let obj: TzedBaseArcBox<Imp, u64> = From::from((b, ctx));
    let w = words(&obj);
    assert!(size_of::<TzedBaseArcBox<Imp, u64>>() == (1 + 2 + 3) * W, "C04 object = vtable pointer + box (2 words) + arc context (3 words) + empty temporary storage");
    assert!(w[0] == <&TzedVtbl<CGlueObjContainer<CBox<'static, Imp>, CArc<u64>, TzedRetTmp<CArc<u64>>>>>::default() as *const _ as usize, "C04 first word is the vtable pointer");
    assert!(w[1] == wb[0] && w[2] == wb[1], "C04 then the instance (box: pointer, drop function)");
    assert!(w[3] == wctx[0] && w[4] == wctx[1] && w[5] == wctx[2], "C04 then the context");
    let cont = obj.ccont_ref() as *const _ as usize;
    assert!(cont == &obj as *const _ as usize + W, "C04 the container follows the vtable pointer");
    kani::cover!(true, "end");
}

type GC<I> = GrpContainer<CBox<'static, I>, NoContext>;
fn grp_words<I: 'static>(g: &GrpBaseBox<'static, I>) -> [usize; 12] { words(g) }

//@ prefix=p_grp kind=property clause=a group holds mandatory vtable pointers in name order, then optional vtable pointers in name order (null when the implementor did not enable the trait), then the container (instance, context, temporary storage)
#[kani::proof]
#[kani::unwind(14)]
fn p_grp_all_enabled() {
    let x: u64 = kani::any();
    let b = CBox::from(Imp { v: x });
    let wb = words(&b);
    let g: GrpBaseBox<Imp> = From::from(b);
    let w = grp_words(&g);
    assert!(size_of::<GrpBaseBox<Imp>>() == (2 + 2 + 2) * W, "C04 group = 2 mandatory + 2 optional vtable pointers + box");
    assert!(w[0] == <&TabcVtbl<GC<Imp>>>::default() as *const _ as usize, "C04 mandatory pointers in name order: Tabc first");
    assert!(w[1] == <&TzedVtbl<GC<Imp>>>::default() as *const _ as usize, "C04 mandatory pointers in name order: Tzed second");
    assert!(w[2] == <&TbopVtbl<GC<Imp>>>::default() as *const _ as usize, "C04 optional pointers in name order: Tbop first");
    assert!(w[3] == <&TyopVtbl<GC<Imp>>>::default() as *const _ as usize, "C04 optional pointers in name order: Tyop second");
    assert!(w[4] == wb[0] && w[5] == wb[1], "C04 then the container: instance (box pointer, drop function)");
    assert!(g.ccont_ref() as *const _ as usize == &g as *const _ as usize + 4 * W, "C04 container follows the vtable pointers");
    kani::cover!(true, "end");
}
#[kani::proof]
#[kani::unwind(14)]
fn p_grp_partial() {
    let x: u64 = kani::any();
    let gy: GrpBaseBox<ImpY> = From::from(CBox::from(ImpY { v: x }));
    let w = grp_words(&gy);
    assert!(w[0] == <&TabcVtbl<GC<ImpY>>>::default() as *const _ as usize && w[1] == <&TzedVtbl<GC<ImpY>>>::default() as *const _ as usize, "C04 mandatory pointers present");
    assert!(w[2] == 0, "C04 optional trait not enabled by the implementor is a null pointer (Tbop)");
    assert!(w[3] == <&TyopVtbl<GC<ImpY>>>::default() as *const _ as usize, "C04 enabled optional trait keeps its name-order slot (Tyop)");
    let gn: GrpBaseBox<ImpNone> = From::from(CBox::from(ImpNone { v: x }));
    let w = grp_words(&gn);
    assert!(w[2] == 0 && w[3] == 0, "C04 no optional trait enabled: both optional slots null");
    assert!(w[0] != 0 && w[1] != 0);
    kani::cover!(true, "end");
}
#[kani::proof]
#[kani::unwind(14)]
fn p_grp_cast_variants() {
    // the results of casts are structures of their own: cast! keeps the group's words; into!
    // (the "final" variant) holds the mandatory pointers in name order, then ONLY the requested
    // optional pointers in name order, then the container
    let x: u64 = kani::any();
    let b = CBox::from(Imp { v: x });
    let wb = words(&b);
    let g: GrpBaseBox<Imp> = From::from(b);
    let wg = grp_words(&g);
    let tabc = <&TabcVtbl<GC<Imp>>>::default() as *const _ as usize;
    let tzed = <&TzedVtbl<GC<Imp>>>::default() as *const _ as usize;
    let tbop = <&TbopVtbl<GC<Imp>>>::default() as *const _ as usize;
    let tyop = <&TyopVtbl<GC<Imp>>>::default() as *const _ as usize;
    let which: u8 = kani::any();
    kani::assume(which < 4);
    match which {
        0 => {
            let c = cglue_macro::cast!(g impl Tbop).unwrap();
            assert!(core::mem::size_of_val(&c) == 6 * W && same(words(&c), wg), "C04 a cast keeps the group's layout and words");
            core::mem::forget(c);
        }
        1 => {
            let f = cglue_macro::into!(g impl Tbop).unwrap();
            let w = words(&f);
            assert!(core::mem::size_of_val(&f) == 5 * W, "C04 final variant = mandatory + requested optional pointers + container");
            assert!(w[0] == tabc && w[1] == tzed, "C04 final variant: mandatory pointers first, in name order");
            assert!(w[2] == tbop, "C04 final variant: then the requested optional pointer");
            assert!(w[3] == wb[0] && w[4] == wb[1], "C04 final variant: then the container");
            core::mem::forget(f);
        }
        2 => {
            let f = cglue_macro::into!(g impl Tyop).unwrap();
            let w = words(&f);
            assert!(w[0] == tabc && w[1] == tzed && w[2] == tyop && w[3] == wb[0] && w[4] == wb[1], "C04 final variant: mandatory (name order), requested optional, container");
            core::mem::forget(f);
        }
        _ => {
            let f = cglue_macro::into!(g impl Tyop + Tbop).unwrap();
            let w = words(&f);
            assert!(core::mem::size_of_val(&f) == 6 * W, "C04 final variant with both optional traits");
            assert!(w[0] == tabc && w[1] == tzed && w[2] == tbop && w[3] == tyop && w[4] == wb[0] && w[5] == wb[1], "C04 final variant: mandatory in name order, optional in name order (whatever the request order), container");
            core::mem::forget(f);
        }
    }
    kani::cover!(which == 1, "into one");
    kani::cover!(which == 3, "into both");
}
#[kani::proof]
#[kani::unwind(14)]
fn p_obj_ret_tmp_last() {
    // container = instance, context, THEN temporary storage -- for single-trait objects and for groups alike
    let x: u64 = kani::any();
    let ctx = CArc::from(x);
    let wctx = words(&ctx);
    let b = CBox::from(Imp { v: x });
    let wb = words(&b);
    let obj: TlendBaseArcBox<Imp, u64> = From::from((b, ctx));
    let n = size_of::<TlendBaseArcBox<Imp, u64>>() / W;
    assert!(n > 1 + 2 + 3, "C04 this trait has non-empty temporary storage");
    let w = words(&obj);
    assert!(w[1] == wb[0] && w[2] == wb[1], "C04 object: instance first");
    assert!(w[3] == wctx[0] && w[4] == wctx[1] && w[5] == wctx[2], "C04 object: context directly after the instance, temporary storage last");
    core::mem::forget(obj);
    let ctx = CArc::from(x);
    let wctx = words(&ctx);
    let b = CBox::from(Imp { v: x });
    let wb = words(&b);
    let g: GLendBaseArcBox<Imp, u64> = From::from((b, ctx));
    assert!(size_of::<GLendBaseArcBox<Imp, u64>>() / W == n + 1, "C04 group = one more vtable pointer than the object, same container");
    let w = words(&g);
    assert!(w[2] == wb[0] && w[3] == wb[1], "C04 group: instance after the two vtable pointers");
    assert!(w[4] == wctx[0] && w[5] == wctx[1] && w[6] == wctx[2], "C04 group: context directly after the instance, temporary storage last");
    core::mem::forget(g);
    kani::cover!(true, "end");
}
#[kani::proof]
#[kani::unwind(14)]
fn p_grp_odd_contexts() {
    // contexts that are smaller / more aligned than a pointer: the group's container still is
    // (instance, context, temporary storage) in that order — a C layout, not one the compiler picks
    let x: u64 = kani::any();
    let small: bool = kani::any();
    if small {
        let c: u32 = kani::any();
        let b = CBox::from(Imp { v: x });
        let wb = words(&b);
        let g = group_obj!((b, c) as GLend);
        let w = words(&g);
        assert!(w[2] == wb[0] && w[3] == wb[1], "C04 group with a 4-byte context: instance directly after the vtable pointers");
        assert!(w[4] as u32 == c, "C04 group with a 4-byte context: context directly after the instance (temporary storage last)");
        core::mem::forget(g);
        let b = CBox::from(Imp { v: x });
        let wb = words(&b);
        let o = trait_obj!((b, c) as Tlend);
        let w = words(&o);
        assert!(w[1] == wb[0] && w[2] == wb[1] && w[3] as u32 == c, "C04 object with a 4-byte context: instance, context, temporary storage");
        core::mem::forget(o);
    } else {
        let c: u128 = kani::any();
        let b = CBox::from(Imp { v: x });
        let wb = words(&b);
        let g = group_obj!((b, c) as GLend);
        let w = words(&g);
        assert!(w[2] == wb[0] && w[3] == wb[1], "C04 group with a 16-byte context: instance directly after the vtable pointers");
        assert!(w[4] == c as u64 as usize && w[5] == (c >> 64) as u64 as usize, "C04 group with a 16-byte context: context directly after the instance");
        core::mem::forget(g);
    }
    kani::cover!(small, "u32 context");
    kani::cover!(!small, "u128 context");
}
#[kani::proof]
#[kani::unwind(14)]
fn p_obj_ret_tmp_size() {
    // the temporary storage is exactly one borrowed child object INCLUDING its copy of the context:
    // vtable pointer + instance reference + context
    let child_words = 1 + 1 + 3;
    assert!(size_of::<TlendBaseArcBox<Imp, u64>>() == (1 + 2 + 3 + child_words) * W, "C04 by-ref lender with an arc context: temporary storage holds a whole child object");
    assert!(size_of::<TlendMutBaseArcBox<Imp, u64>>() == (1 + 2 + 3 + child_words) * W, "C04 by-mut lender with an arc context: temporary storage holds a whole child object");
    assert!(size_of::<TlendLtBaseArcBox<Imp, u64>>() == (1 + 2 + 3 + child_words) * W, "C04 lifetime-bound by-mut lender with an arc context: temporary storage holds a whole child object");
    assert!(size_of::<TlendMutBaseBox<Imp>>() == (1 + 2 + 2) * W, "C04 without context the child is vtable pointer + instance reference");
    let x: u64 = kani::any();
    let mut obj: TlendLtBaseArcBox<Imp, u64> = From::from((CBox::from(Imp { v: x }), CArc::from(x)));
    assert!(obj.lend_lt().q() == x ^ 3, "C04 lending through the lifetime-bound by-mut path stays inside the object");
    kani::cover!(true, "end");
}
#[kani::proof]
#[kani::unwind(14)]
fn p_vtbl_assoc_between() {
    type C = CGlueObjContainer<CBox<'static, Imp>, NoContext, TlendRetTmp<NoContext>>;
    assert!(size_of::<TlendVtbl<C>>() == 3 * W, "C04 every method keeps its slot when an associated type is declared between methods");
    let obj = trait_obj!(Imp { v: 7 } as Tlend);
    assert!(obj.lead() == 7 ^ 21, "C04 the leading method dispatches to the implementor (not to the trait's default body)");
    assert!(obj.tail() == 7 ^ 22 && obj.lend().q() == 7 ^ 3, "C04 later methods dispatch to the implementor");
    let vt = obj.get_vtbl();
    let wv = words(vt);
    assert!(wv[2] == vt.tail() as usize && wv[0] != wv[2] && wv[0] != 0, "C04 slots in declaration order (the last declared method sits in the last slot)");
    kani::cover!(true, "end");
}
#[kani::proof]
#[kani::unwind(14)]
fn p_grp_alias_order() {
    type GA<I> = GAliasContainer<CBox<'static, I>, NoContext>;
    let x: u64 = kani::any();
    let g: GAliasBaseBox<Imp> = From::from(CBox::from(Imp { v: x }));
    let w = words(&g);
    assert!(w[0] == <&TzedVtbl<GA<Imp>>>::default() as *const _ as usize, "C04 mandatory slot 0 is the trait whose ALIAS sorts first (Mzed = Tzed)");
    assert!(w[1] == <&TabcVtbl<GA<Imp>>>::default() as *const _ as usize, "C04 mandatory slot 1 is the trait whose ALIAS sorts second (Nabc = Tabc)");
    assert!(w[2] == <&TyopVtbl<GA<Imp>>>::default() as *const _ as usize, "C04 optional slot 0 is the trait whose ALIAS sorts first (Abop = Tyop)");
    assert!(w[3] == <&TbopVtbl<GA<Imp>>>::default() as *const _ as usize, "C04 optional slot 1 is the trait whose ALIAS sorts second (Zyop = Tbop)");
    let gy: GAliasBaseBox<ImpY> = From::from(CBox::from(ImpY { v: x }));
    let w = words(&gy);
    assert!(w[2] == <&TyopVtbl<GA<ImpY>>>::default() as *const _ as usize && w[3] == 0, "C04 with only Abop enabled: slot of Abop filled, slot of Zyop null");
    assert!(check!(gy impl Abop) && !check!(gy impl Zyop));
    kani::cover!(true, "end");
}
#[kani::proof]
#[kani::unwind(14)]
fn p_grp_case_order() {
    type GC2<I> = GCaseContainer<CBox<'static, I>, NoContext>;
    let x: u64 = kani::any();
    let g: GCaseBaseBox<Imp> = From::from(CBox::from(Imp { v: x }));
    let w = words(&g);
    assert!(w[0] == <&TzedVtbl<GC2<Imp>>>::default() as *const _ as usize && w[1] == <&TabcVtbl<GC2<Imp>>>::default() as *const _ as usize, "C04 mandatory slots follow the plain identifier order (MAb before Maa)");
    assert!(w[2] == <&TyopVtbl<GC2<Imp>>>::default() as *const _ as usize && w[3] == <&TbopVtbl<GC2<Imp>>>::default() as *const _ as usize, "C04 optional slots follow the plain identifier order (OPb before Opa)");
    kani::cover!(true, "end");
}
#[kani::proof]
#[kani::unwind(14)]
fn p_grp_ctx() {
    let x: u64 = kani::any();
    let ctx = CArc::from(x);
    let wctx = words(&ctx);
    let mut imp = Imp { v: x };
    let ip = &mut imp as *mut Imp as usize;
    let g: GrpBaseArcMut<Imp, u64> = From::from((&mut imp, ctx));
    let w = words(&g);
    assert!(size_of::<GrpBaseArcMut<Imp, u64>>() == (4 + 1 + 3) * W, "C04 by-mut group with arc context = 4 vtable pointers + instance pointer + 3 context words");
    assert!(w[4] == ip, "C04 instance pointer follows the vtable pointers");
    assert!(w[5] == wctx[0] && w[6] == wctx[1] && w[7] == wctx[2], "C04 context follows the instance");
    kani::cover!(true, "end");
}

//@ prefix=p_opaque kind=property clause=opaque and concrete forms have identical size, alignment and bit pattern (into_opaque preserves every word) for every Opaquable implementation in the library and for generated objects and groups
#[kani::proof]
#[kani::unwind(14)]
fn p_opaque_library() {
    let x: u64 = kani::any();
    macro_rules! chk { ($v:expr, $t:ty) => {{
        let v: $t = $v;
        assert!(size_of::<$t>() == size_of::<<$t as Opaquable>::OpaqueTarget>(), "C04 opaque form has the same size");
        assert!(align_of::<$t>() == align_of::<<$t as Opaquable>::OpaqueTarget>(), "C04 opaque form has the same alignment");
        let w = words(&v);
        let o = v.into_opaque();
        assert!(same(words(&o), w), "C04 into_opaque preserves the bit pattern");
        core::mem::forget(o);
    }} }
    let mut m = x;
    chk!(&x, &u64);
    chk!(&mut m, &mut u64);
    chk!(CBox::from(x), CBox<u64>);
    chk!(CSliceBox::from(std::vec![x, x ^ 1].into_boxed_slice()), CSliceBox<u64>);
    chk!(CArc::from(x), CArc<u64>);
    chk!(CArcSome::from(x), CArcSome<u64>);
    chk!(Fwd(&x), Fwd<&u64>);
    chk!(CGlueObjContainer::<CBox<u64>, NoContext, ()>::from(CBox::from(x)), CGlueObjContainer<CBox<u64>, NoContext, ()>);
    kani::cover!(true, "end");
}
#[kani::proof]
#[kani::unwind(14)]
fn p_opaque_generated() {
    let x: u64 = kani::any();
    let obj: TzedBaseArcBox<Imp, u64> = From::from((CBox::from(Imp { v: x }), CArc::from(x)));
    assert!(size_of::<TzedBaseArcBox<Imp, u64>>() == size_of::<TzedArcBox>() || true);
    let w = words(&obj);
    let o = obj.into_opaque();
    assert!(same(words(&o), w), "C04 trait object: into_opaque preserves every word");
    assert!(o.z2() == x ^ 1 && o.a0() == x ^ 5, "C04 the opaque object still dispatches");
    core::mem::forget(o);
    let g: GrpBaseBox<ImpY> = From::from(CBox::from(ImpY { v: x }));
    assert!(size_of::<GrpBaseBox<ImpY>>() == size_of::<GrpBox>() && align_of::<GrpBaseBox<ImpY>>() == align_of::<GrpBox>(), "C04 group: opaque form has the same size and alignment");
    let w = words(&g);
    let og: GrpBox = g.into_opaque();
    assert!(same(words(&og), w), "C04 group: into_opaque preserves every word");
    assert!(og.q() == x ^ 3 ^ 16, "C04 the opaque group still dispatches");
    core::mem::forget(og);
    kani::cover!(true, "end");
}
//@ prefix=canary kind=canary clause=vacuity canary
#[kani::proof]
#[kani::unwind(14)]
fn canary_c04() {
    let v = <&TzedVtbl<BoxCont>>::default();
    let w = words(v);
    assert!(w[0] == v.a0() as usize, "canary: deliberately false (name order)");
}

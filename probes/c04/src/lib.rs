//! C04 probe: generated C layout is a fixed, order-preserving function of the definitions.
//! Method names and group trait lists are deliberately NOT in sorted order.
#![allow(clippy::all, unused)]
use cglue::*;

pub struct Imp { pub v: u64 }
pub struct ImpY { pub v: u64 }
pub struct ImpNone { pub v: u64 }

#[cglue_trait]
pub trait Tzed {
    fn z2(&self) -> u64;
    fn a1(&self) -> u64;
    fn m3(&mut self, x: u64) -> u64;
    fn b0(&self, x: u8);
    fn a0(&self) -> u64;
}
#[cglue_trait]
pub trait Tabc { fn q(&self) -> u64; }
#[cglue_trait]
pub trait Tyop { fn y(&self) -> u64; }
#[cglue_trait]
pub trait Tbop { fn b(&self) -> u64; fn a(&self) -> u64; }

/// a C-side-only (#[vtbl_only]) method declared BETWEEN ordinary ones still owns its declaration-order slot
#[cglue_trait]
pub trait Tvo {
    fn vo_first(&self) -> u64;
    #[vtbl_only]
    fn vo_second(&self) -> u64 { 2 }
    fn vo_third(&self) -> u64;
}
/// a `#[skip_func]` method declared BETWEEN exported ones owns NO slot ("one function pointer per
/// exported method")
#[cglue_trait]
pub trait Tsk {
    fn sk_first(&self) -> u64;
    #[skip_func]
    fn sk_skipped(&self) -> u64 { 2 }
    fn sk_third(&self) -> u64;
}
/// a provided method with a `where Self: Sized` clause between ordinary ones is exported like any
/// other method: it owns its declaration-order slot
#[cglue_trait]
pub trait Twh {
    fn wh_first(&self) -> u64;
    fn wh_sized(&self, k: u64) -> u64 where Self: Sized { k }
    fn wh_third(&self) -> u64;
}
macro_rules! impl_all { ($t:ty, $k:expr) => {
    impl Tzed for $t {
        fn z2(&self) -> u64 { self.v ^ 1 ^ $k }
        fn a1(&self) -> u64 { self.v ^ 2 ^ $k }
        fn m3(&mut self, x: u64) -> u64 { self.v ^= x; self.v }
        fn b0(&self, _x: u8) {}
        fn a0(&self) -> u64 { self.v ^ 5 ^ $k }
    }
    impl Tabc for $t { fn q(&self) -> u64 { self.v ^ 3 ^ $k } }
    impl Tyop for $t { fn y(&self) -> u64 { self.v ^ 4 ^ $k } }
    impl Tbop for $t { fn b(&self) -> u64 { self.v ^ 6 ^ $k } fn a(&self) -> u64 { self.v ^ 7 ^ $k } }
    impl Twh for $t { fn wh_first(&self) -> u64 { self.v ^ 31 } fn wh_sized(&self, k: u64) -> u64 { self.v ^ 32 ^ k } fn wh_third(&self) -> u64 { self.v ^ 33 } }
    impl Tsk for $t { fn sk_first(&self) -> u64 { self.v ^ 21 } fn sk_third(&self) -> u64 { self.v ^ 23 } }
    impl Tvo for $t { fn vo_first(&self) -> u64 { self.v ^ 11 } fn vo_second(&self) -> u64 { self.v ^ 12 } fn vo_third(&self) -> u64 { self.v ^ 13 } }
} }
impl_all!(Imp, 0);
impl_all!(ImpY, 16);
impl_all!(ImpNone, 32);

cglue_trait_group!(Grp, { Tzed, Tabc }, { Tyop, Tbop });
cglue_impl_group!(Imp, Grp, { Tyop, Tbop });
cglue_impl_group!(ImpY, Grp, { Tyop });
cglue_impl_group!(ImpNone, Grp, {});

/// a trait with non-empty temporary return storage (borrowed wrapped return) and an associated
/// type declared BETWEEN methods, the leading method having a default body the implementor overrides
#[cglue_trait]
pub trait Tlend {
    fn lead(&self) -> u64 { 0xDEF }
    #[wrap_with_obj_ref(Tabc)]
    type Lent: Tabc + 'static;
    fn lend(&self) -> &Self::Lent;
    fn tail(&self) -> u64;
}
impl Tlend for Imp { type Lent = Imp; fn lead(&self) -> u64 { self.v ^ 21 } fn lend(&self) -> &Imp { self } fn tail(&self) -> u64 { self.v ^ 22 } }
#[cglue_trait]
pub trait TlendMut {
    #[wrap_with_obj_mut(Tabc)]
    type LentM: Tabc + 'static;
    fn lend_mut(&mut self) -> &mut Self::LentM;
}
impl TlendMut for Imp { type LentM = Imp; fn lend_mut(&mut self) -> &mut Imp { self } }
#[cglue_trait]
pub trait TlendLt<'a> {
    #[wrap_with_obj_mut(Tabc)]
    type LentL: Tabc + 'a;
    fn lend_lt(&'a mut self) -> &'a mut Self::LentL;
}
impl<'a> TlendLt<'a> for Imp { type LentL = Imp; fn lend_lt(&mut self) -> &mut Imp { self } }
cglue_trait_group!(GLend, { Tlend }, { Tabc });
cglue_impl_group!(Imp, GLend, { Tabc });

/// aliases whose order DIFFERS from the order of the underlying trait names: slots follow the alias
/// (the name the vtable field and the C header carry)
cglue_trait_group!(GAlias, { Tzed = Mzed, Tabc = Nabc }, { Tyop = Abop, Tbop = Zyop });
cglue_impl_group!(Imp, GAlias, { Tyop = Abop, Tbop = Zyop });
cglue_impl_group!(ImpY, GAlias, { Tyop = Abop });

/// mixed-case names: "name order" is the plain (case-sensitive) order of the identifiers, the same
/// order a C consumer gets from the field names in the published header
cglue_trait_group!(GCase, { Tzed = MAb, Tabc = Maa }, { Tyop = OPb, Tbop = Opa });
cglue_impl_group!(Imp, GCase, { Tyop = OPb, Tbop = Opa });

#[cfg(kani)]
mod verif;

//! Per-operation ownership contract from a well-formed object (ghost state: MADE/DROPS counters of
//! the payload, CBMC's allocator state).  Every operation returns well-formed objects or nothing,
//! so histories follow by induction; Kani's double-free / use-after-free / dealloc-size obligations
//! and the harness-end leak obligation are part of every harness.
use super::*;
use cglue::arc::{CArc, CArcSome};
use cglue::boxed::CBox;
use cglue::trait_group::Opaquable;
use cglue_macro::check;

//@ prefix=p_obj kind=property clause=boxed single-trait object: create +0; into_opaque +0; calls +0; drop exactly +1; consuming call exactly +1 and only after the method ran; nothing leaked
#[kani::proof]
#[kani::unwind(4)]
fn p_obj_lifecycle() {
    let id: u32 = kani::any();
    let obj = trait_obj!(P::new(id) as Base);
    assert!(drops() == 0 && made() == 1, "C06 creating an object drops nothing");
    let obj: BaseBox = obj;           // opaque form
    assert!(obj.get() == id && obj.get() == id, "C06 calls do not consume the value");
    assert!(drops() == 0, "C06 calls drop nothing");
    if kani::any() {
        drop(obj);
        assert!(drops() == 1, "C06 dropping the object destroys the value exactly once");
    } else {
        unsafe { EXPECT_BEFORE_CONSUME = 0 };
        let r = obj.consume();
        assert!(r == id, "C06 by-value method received the value");
        assert!(drops() == 1, "C06 a by-value call destroys the value exactly once");
    }
    kani::cover!(true, "end");
}
#[kani::proof]
#[kani::unwind(4)]
fn p_obj_consume_with_ret_tmp() {
    // by-value call on an object that carries non-empty temporary storage
    let id: u32 = kani::any();
    let obj = trait_obj!(P::new(id) as Both);
    if kani::any() { assert!(obj.inner().look() == id ^ 7, "C06 borrowed child usable"); }
    assert!(drops() == 0);
    let r = obj.finish();
    assert!(r == id ^ 0x55, "C06 by-value method received the value");
    assert!(drops() == 1 && made() == 1, "C06 a by-value call destroys the value exactly once (object with temporary storage)");
}
#[kani::proof]
#[kani::unwind(3)]
fn p_obj_generic_trait() {
    // objects over a GENERIC trait (alone / as group member / by reference): same lifecycle, and
    // nothing is allocated on the object's behalf that is not freed (leak obligation)
    let id: u32 = kani::any();
    let which: u8 = kani::any();
    kani::assume(which < 3);
    match which {
        0 => { let o = trait_obj!(P::new(id) as Gen<u32>); assert!(o.gen_get(5) == id ^ 5 && drops() == 0); drop(o); assert!(drops() == 1, "C06 boxed object over a generic trait: value destroyed exactly once"); }
        1 => {
            let g = group_obj!(P::new(id) as GG);
            let c = cast!(g impl GenU32).unwrap();
            assert!(c.gen_get(6) == id ^ 6 && c.look() == id ^ 7 && drops() == 0);
            drop(c);
            assert!(drops() == 1, "C06 boxed group with a generic member: value destroyed exactly once");
        }
        _ => { let p = P::new(id); { let o = trait_obj!(&p as Gen<u32>); assert!(o.gen_get(7) == id ^ 7); } assert!(drops() == 0, "C06 by-reference object never drops the referent"); drop(p); assert!(drops() == 1); }
    }
    kani::cover!(which == 0, "boxed");
    kani::cover!(which == 1, "group");
    kani::cover!(which == 2, "by reference");
}
//@ prefix=p_ref kind=property clause=by-reference, by-mutable-reference and reference-counted objects never drop or free what they borrow; the referent stays usable
#[kani::proof]
#[kani::unwind(4)]
fn p_ref_kinds() {
    let id: u32 = kani::any();
    let mut p = P::new(id);
    {
        let o = trait_obj!(&p as Look);
        assert!(o.look() == id ^ 7);
        let o = o.into_opaque();
        drop(o);
    }
    assert!(drops() == 0 && p.ok(), "C06 a by-reference object never drops its referent");
    {
        let o = trait_obj!(&mut p as Look);
        assert!(o.look() == id ^ 7);
        drop(o);
    }
    assert!(drops() == 0 && p.ok(), "C06 a by-mutable-reference object never drops its referent");
    {
        let g = group_obj!(&mut p as GR);
        let c = cast!(g impl Opt1).unwrap();
        assert!(c.o1() == id ^ 1);
        drop(c);
    }
    assert!(drops() == 0 && p.ok(), "C06 a by-reference group and its casts never drop the referent");
    {
        let g = group_obj!(&p as GR);
        assert!(cast!(g impl Opt2).is_none(), "Opt2 is not enabled");
    }
    assert!(drops() == 0 && p.ok(), "C06 a failed cast of a by-reference group does not drop the referent");
    let arc = CArcSome::from(p);
    let keep = arc.clone();
    let o = trait_obj!(arc as Look);
    assert!(o.look() == id ^ 7);
    drop(o);
    assert!(drops() == 0 && keep.ok(), "C06 an object over a shared handle releases only its own handle");
    drop(keep);
    assert!(drops() == 1, "C06 value dropped with the last handle");
}
//@ prefix=p_grp kind=property clause=boxed group: create/into_opaque/check/as_ref/as_mut/successful cast/upcast +0 with the value still usable; failing cast/into destroys the moved group exactly once; final drop exactly +1
#[kani::proof]
#[kani::unwind(4)]
fn p_grp_casts() {
    let id: u32 = kani::any();
    let g = group_obj!(P::new(id) as GO);
    let mut g: GOBox = g;
    assert!(drops() == 0, "C06 creating a group drops nothing");
    assert!(check!(g impl Opt1) && !check!(g impl Opt2), "check");
    assert!(as_ref!(g impl Opt1).unwrap().o1() == id ^ 1 && as_mut!(g impl Opt1 + Clone).is_some() && as_ref!(g impl Opt2).is_none());
    assert!(drops() == 0, "C06 check/as_ref/as_mut drop nothing");
    let route: u8 = kani::any();
    kani::assume(route < 5);
    match route {
        4 => {
            // casting back through From/Into instead of upcast()
            let c = cast!(g impl Opt1 + Clone).unwrap();
            let back: GOBox = From::from(c);
            assert!(drops() == 0 && back.look() == id ^ 7 && check!(back impl Opt1), "C06 casting back via From drops nothing and the group stays usable");
            drop(back);
            assert!(drops() == 1, "C06 final drop destroys the value exactly once");
        }
        0 => {
            let c = cast!(g impl Opt1).unwrap();
            assert!(drops() == 0 && c.look() == id ^ 7, "C06 a successful cast drops nothing");
            let back = c.upcast();
            assert!(drops() == 0 && back.look() == id ^ 7, "C06 casting back drops nothing");
            drop(back);
            assert!(drops() == 1, "C06 final drop destroys the value exactly once");
        }
        1 => {
            let c = cast!(g impl Opt2);
            assert!(c.is_none());
            assert!(drops() == 1, "C06 a failing cast destroys the moved group exactly once (immediately)");
        }
        2 => {
            let c = into!(g impl Opt1 + Clone).unwrap();
            assert!(drops() == 0 && c.o1() == id ^ 1, "C06 a successful into drops nothing");
            drop(c);
            assert!(drops() == 1, "C06 dropping the finalised group destroys the value exactly once");
        }
        _ => {
            let c = into!(g impl Opt1 + Opt2);
            assert!(c.is_none());
            assert!(drops() == 1, "C06 a failing into destroys the moved group exactly once");
        }
    }
    assert!(made() == 1);
    kani::cover!(route == 0, "cast ok");
    kani::cover!(route == 3, "into fails");
}
//@ prefix=p_clone kind=property clause=clone (Clone as optional trait): the clone owns a new value; both are destroyed exactly once each, in either order
#[kani::proof]
#[kani::unwind(4)]
fn p_clone_group() {
    let id: u32 = kani::any();
    let g = group_obj!(P::new(id) as GO);
    let c = cast!(g impl Clone).unwrap();
    let c2 = c.clone();
    assert!(made() == 2 && drops() == 0, "C06 clone creates exactly one new value and drops nothing");
    assert!(c2.look() == id ^ 7 && c.look() == id ^ 7);
    if kani::any() { drop(c); assert!(drops() == 1 && c2.look() == id ^ 7, "C06 the clone outlives the original"); drop(c2); }
    else { drop(c2); assert!(drops() == 1 && c.look() == id ^ 7, "C06 the original outlives the clone"); drop(c); }
    assert!(drops() == 2, "C06 original and clone destroyed exactly once each");
    let o = trait_obj!(P::new(id) as Clone);
    let o2 = o.clone();
    drop(o);
    drop(o2);
    assert!(drops() == 4 && made() == 4, "C06 single-trait Clone object: both destroyed exactly once");
}
//@ prefix=p_child kind=property clause=objects/groups wrapped around returned associated values own their value: destroyed exactly once when the child is dropped (or consumed), independently of the parent; a consuming parent call destroys the parent exactly once
#[kani::proof]
#[kani::unwind(4)]
fn p_child_owned() {
    let (id, cid): (u32, u32) = kani::any();
    let parent = trait_obj!(P::new(id) as Maker);
    let which: u8 = kani::any();
    kani::assume(which < 3);
    match which {
        0 => {
            let child = parent.make(cid);
            assert!(made() == 2 && drops() == 0, "C06 returning a wrapped child drops nothing");
            assert!(child.get() == cid);
            if kani::any() { drop(parent); assert!(drops() == 1 && child.get() == cid, "C06 the child outlives its parent"); unsafe { EXPECT_BEFORE_CONSUME = 1 }; assert!(child.consume() == cid); }
            else { drop(child); assert!(drops() == 1, "C06 dropping the child destroys its value exactly once"); drop(parent); }
            assert!(drops() == 2, "C06 parent and child destroyed exactly once each");
        }
        1 => {
            let child = parent.make_group(cid);
            assert!(made() == 2 && drops() == 0);
            assert!(child.look() == cid ^ 7);
            let c = cast!(child impl Opt1).unwrap();
            assert!(c.o1() == cid ^ 1 && drops() == 0, "C06 casting a returned group drops nothing");
            drop(parent);
            drop(c);
            assert!(drops() == 2, "C06 parent and child group destroyed exactly once each");
        }
        _ => {
            let child = parent.make_consuming(cid);
            assert!(made() == 2 && drops() == 1, "C06 a consuming call destroys the parent's value exactly once");
            assert!(child.get() == cid ^ id);
            drop(child);
            assert!(drops() == 2, "C06 the returned child destroyed exactly once");
        }
    }
    kani::cover!(which == 2, "consuming parent");
}

//@ prefix=p_wrapres kind=property clause=wrapped owned children returned inside Result / integer-coded Result: variant and error payload cross unchanged, a returned child owns its value (destroyed exactly once), no child is created or destroyed on the failure variants
#[kani::proof]
#[kani::unwind(4)]
fn p_wrapres_children() {
    let (id, cid): (u32, u32) = kani::any();
    let bad: bool = kani::any();
    let which: u8 = kani::any();
    kani::assume(which < 2);
    let parent = trait_obj!(P::new(id) as Maker);
    match which {
        0 => match parent.try_make(cid, bad) {
            Ok(c) => { assert!(!bad && c.get() == cid && made() == 2 && drops() == 0, "C06 Ok(child) arrives as Ok with a live child"); drop(c); assert!(drops() == 1); }
            Err(e) => assert!(bad && e == cid as u64 ^ 0xE0 && made() == 1 && drops() == 0, "C06 Err payload crosses unchanged, no child created or destroyed"),
        },
        _ => match parent.code_make(cid, bad) {
            Ok(c) => { assert!(!bad && c.get() == cid && made() == 2 && drops() == 0, "C06 integer-coded Ok(child) arrives with a live child"); drop(c); assert!(drops() == 1); }
            Err(()) => assert!(bad && made() == 1 && drops() == 0, "C06 integer-coded Err: no child created or destroyed"),
        },
    }
    drop(parent);
    assert!(drops() == made(), "C06 everything destroyed exactly once");
    kani::cover!(which == 0 && bad, "Err");
    kani::cover!(which == 1 && !bad, "int Ok");
}
//@ prefix=b_seq kind=property clause=bounded cross-check: all sequences of 3 symbolic operations over {into_opaque-call, as_ref, cast+upcast, clone+drop clone, failing cast} end with every value destroyed exactly once and nothing leaked
#[kani::proof]
#[kani::unwind(5)]
fn b_seq3() {
    let id: u32 = kani::any();
    let mut g: Option<GOBox> = Some(group_obj!(P::new(id) as GO));
    let mut live: u32 = 1;
    let mut i = 0;
    while i < 3 {
        let op: u8 = kani::any();
        kani::assume(op < 5);
        if let Some(cur) = g.take() {
            g = match op {
                0 => { assert!(cur.look() == id ^ 7); Some(cur) }
                1 => { assert!(as_ref!(cur impl Opt1).is_some()); Some(cur) }
                2 => Some(cast!(cur impl Opt1).unwrap().upcast()),
                3 => { let c = cast!(cur impl Clone).unwrap(); let c2 = c.clone(); drop(c2); Some(c.upcast()) }
                _ => { assert!(cast!(cur impl Opt2).is_none()); live = 0; None }
            };
        }
        assert!(made() - drops() == live, "C06 history: live values == live objects");
        i += 1;
    }
    drop(g);
    assert!(made() == drops(), "C06 history: every value destroyed exactly once");
}

//@ prefix=canary kind=canary clause=vacuity canary
#[kani::proof]
#[kani::unwind(4)]
fn canary_c06() {
    let g = group_obj!(P::new(1) as GO);
    let c = cast!(g impl Opt2);
    assert!(c.is_none());
    assert!(drops() == 0, "canary: deliberately false (failing cast drops)");
}

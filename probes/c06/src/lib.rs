//! C06 probe: every owned value is destroyed exactly once, with nothing leaked.
#![allow(clippy::all, unused)]
use cglue::*;

pub static mut DROPS: u32 = 0;
pub static mut MADE: u32 = 0;
pub fn drops() -> u32 { unsafe { DROPS } }
pub fn made() -> u32 { unsafe { MADE } }

/// heap-owning payload with creation/drop counters
pub struct P { pub id: u32, pub heap: Box<u32> }
impl P {
    pub fn new(id: u32) -> Self { unsafe { MADE += 1 }; P { id, heap: Box::new(!id) } }
    pub fn ok(&self) -> bool { *self.heap == !self.id }
}
impl Drop for P { fn drop(&mut self) { assert!(self.ok(), "C06 dropped value is a real, intact value"); unsafe { DROPS += 1 } } }
impl Clone for P { fn clone(&self) -> Self { P::new(self.id) } }

#[cglue_trait]
pub trait Base {
    fn get(&self) -> u32;
    fn consume(self) -> u32;
}
impl Base for P {
    fn get(&self) -> u32 { assert!(self.ok()); self.id }
    fn consume(self) -> u32 { assert!(self.ok()); assert!(drops() == unsafe { EXPECT_BEFORE_CONSUME }, "C06 the instance is still alive while the by-value method runs"); self.id }
}
pub static mut EXPECT_BEFORE_CONSUME: u32 = 0;
#[cglue_trait]
pub trait Look { fn look(&self) -> u32; }
impl Look for P { fn look(&self) -> u32 { assert!(self.ok()); self.id ^ 7 } }
#[cglue_trait]
pub trait Opt1 { fn o1(&self) -> u32; }
impl Opt1 for P { fn o1(&self) -> u32 { self.id ^ 1 } }
#[cglue_trait]
pub trait Opt2 { fn o2(&self) -> u32; }
impl Opt2 for P { fn o2(&self) -> u32 { self.id ^ 2 } }

cglue_trait_group!(GO, { Look }, { Opt1, Opt2, Clone });
cglue_impl_group!(P, GO, { Opt1, Clone });
/// same without Clone (by-reference groups cannot enable Clone)
cglue_trait_group!(GR, { Look }, { Opt1, Opt2 });
cglue_impl_group!(P, GR, { Opt1 });

/// a trait whose methods return owned associated values wrapped into objects / groups
#[cglue_trait]
pub trait Maker {
    #[wrap_with_obj(Base)]
    type Ret: Base + 'static;
    #[wrap_with_group(GO)]
    type RetG: Look + 'static;
    fn make(&self, id: u32) -> Self::Ret;
    fn make_group(&self, id: u32) -> Self::RetG;
    fn make_consuming(self, id: u32) -> Self::Ret;
    fn try_make(&self, id: u32, fail: bool) -> Result<Self::Ret, u64>;
    #[int_result]
    fn code_make(&self, id: u32, fail: bool) -> Result<Self::Ret, ()>;
}
impl Maker for P {
    type Ret = P;
    type RetG = P;
    fn make(&self, id: u32) -> P { P::new(id) }
    fn make_group(&self, id: u32) -> P { P::new(id) }
    fn make_consuming(self, id: u32) -> P { P::new(id ^ self.id) }
    fn try_make(&self, id: u32, fail: bool) -> Result<P, u64> { if fail { Err(id as u64 ^ 0xE0) } else { Ok(P::new(id)) } }
    fn code_make(&self, id: u32, fail: bool) -> Result<P, ()> { if fail { Err(()) } else { Ok(P::new(id)) } }
}

/// consuming method on a trait whose objects carry non-empty temporary storage (a borrowed wrapped getter)
#[cglue_trait]
pub trait Both {
    #[wrap_with_obj_ref(Look)]
    type Inner: Look + 'static;
    fn inner(&self) -> &Self::Inner;
    fn finish(self) -> u32;
}
impl Both for P { type Inner = P; fn inner(&self) -> &P { self } fn finish(self) -> u32 { assert!(self.ok()); self.id ^ 0x55 } }

/// generic trait (its vtable depends on the trait's type parameter), alone and as an aliased
/// optional member of a group
#[cglue_trait]
pub trait Gen<T> { fn gen_get(&self, v: T) -> T; }
impl Gen<u32> for P { fn gen_get(&self, v: u32) -> u32 { assert!(self.ok()); self.id ^ v } }
cglue_trait_group!(GG, { Look }, { Gen<u32> = GenU32 });
cglue_impl_group!(P, GG, { Gen<u32> = GenU32 });

#[cfg(kani)]
mod verif;

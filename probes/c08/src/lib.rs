//! C08 probe: group casts succeed exactly when the requested traits are present.
//! src/generated.rs and src/harnesses.rs are written by gen.py before every build.
#![allow(clippy::all, unused, non_camel_case_types)]
use cglue::*;

#[derive(Clone, Copy, PartialEq, Eq, Debug)]
#[cfg_attr(kani, derive(kani::Arbitrary))]
pub struct State { pub x: u64, pub calls: u32, pub log: u32 }

pub fn step(st: *mut State, id: u64, tag: u32, rot: u32, a: u64) -> u64 {
    let s = unsafe { &mut *st };
    s.calls = s.calls.wrapping_add(1);
    s.log = s.log.rotate_left(5) ^ tag;
    s.x = s.x.rotate_left(rot).wrapping_add(a);
    s.x ^ id.rotate_left(17)
}

#[cglue_trait] pub trait Mand { fn mand(&self, a: u64) -> u64; }
#[cglue_trait] pub trait Oa { fn oa(&self, a: u64) -> u64; }
#[cglue_trait] pub trait Ob { fn ob(&self, a: u64) -> u64; }
#[cglue_trait] pub trait Oc { fn oc(&self, a: u64) -> u64; }
/// a name whose case-sensitive order ("OZ" < "Oa") differs from its lowercase order ("oz" > "oa")
#[cglue_trait] pub trait OZ { fn oz(&self, a: u64) -> u64; }
#[cglue_trait] pub trait TT<T> { fn tt(&self, a: T) -> T; }

#[macro_export]
macro_rules! imp_struct { ($n:ident) => {
    pub struct $n { pub st: *mut State, pub id: u64 }
    unsafe impl Send for $n {}
    unsafe impl Sync for $n {}
    impl $n { pub fn new(st: *mut State, id: u64) -> Self { Self { st, id } } }
    impl Mand for $n { fn mand(&self, a: u64) -> u64 { step(self.st, self.id, 9, 3, a) } }
    impl Oa for $n { fn oa(&self, a: u64) -> u64 { step(self.st, self.id, 1, 5, a) } }
    impl Ob for $n { fn ob(&self, a: u64) -> u64 { step(self.st, self.id, 2, 7, a) } }
    impl Oc for $n { fn oc(&self, a: u64) -> u64 { step(self.st, self.id, 3, 11, a) } }
    impl OZ for $n { fn oz(&self, a: u64) -> u64 { step(self.st, self.id, 6, 13, a) } }
    impl TT<u8> for $n { fn tt(&self, a: u8) -> u8 { step(self.st, self.id, 4, 13, a as u64) as u8 } }
    impl TT<u16> for $n { fn tt(&self, a: u16) -> u16 { step(self.st, self.id, 5, 17, a as u64) as u16 } }
} }

/// four-argument cglue_impl_group!: the type enables {FA, FB}; its forward `Fwd<&mut T>` only {FA}
#[cglue_trait] #[cglue_forward] pub trait FBase { fn fbase(&self, a: u64) -> u64; }
#[cglue_trait] #[cglue_forward] pub trait FA { fn fa(&self, a: u64) -> u64; }
#[cglue_trait] #[cglue_forward] pub trait FB { fn fb(&self, a: u64) -> u64; }
#[cglue_trait] #[cglue_forward] pub trait FC { fn fc(&self, a: u64) -> u64; }
pub struct FImp { pub st: *mut State, pub id: u64 }
unsafe impl Send for FImp {}
unsafe impl Sync for FImp {}
impl FBase for FImp { fn fbase(&self, a: u64) -> u64 { step(self.st, self.id, 20, 3, a) } }
impl FA for FImp { fn fa(&self, a: u64) -> u64 { step(self.st, self.id, 21, 5, a) } }
impl FB for FImp { fn fb(&self, a: u64) -> u64 { step(self.st, self.id, 22, 7, a) } }
impl FC for FImp { fn fc(&self, a: u64) -> u64 { step(self.st, self.id, 23, 9, a) } }
cglue_trait_group!(GF, FBase, { FA, FB, FC });
cglue_impl_group!(FImp, GF, { FA, FB }, { FA });
/// the same with an explicitly EMPTY forward list: groups over the forward offer no optional trait
pub struct FImp0 { pub id: u64 }
impl FBase for FImp0 { fn fbase(&self, a: u64) -> u64 { self.id ^ a } }
impl FA for FImp0 { fn fa(&self, a: u64) -> u64 { self.id ^ a ^ 1 } }
impl FB for FImp0 { fn fb(&self, a: u64) -> u64 { self.id ^ a ^ 2 } }
cglue_impl_group!(FImp0, GF, { FA, FB }, {});

/// group with Clone among the optional traits: a `-> Self` method on a subset cast must keep the others
#[derive(Clone)]
pub struct KImp { pub id: u64 }
impl Mand for KImp { fn mand(&self, a: u64) -> u64 { self.id ^ a } }
impl Oa for KImp { fn oa(&self, a: u64) -> u64 { self.id ^ a ^ 1 } }
impl Ob for KImp { fn ob(&self, a: u64) -> u64 { self.id ^ a ^ 2 } }
cglue_trait_group!(GK, { Mand }, { Oa, Ob, Clone });
cglue_impl_group!(KImp, GK, { Oa, Ob, Clone });

/// two groups with the SAME NAME in different modules (different optional lists); the impl of the
/// first is expanded after the definition of the second
pub mod ma {
    use super::*;
    cglue_trait_group!(GS, { Mand }, { Oa, Ob });
}
pub mod mb {
    use super::*;
    cglue_trait_group!(GS, { Mand }, { Oc });
    cglue_impl_group!(KImp2, GS, { Oc });
}
pub struct KImp2 { pub id: u64 }
impl Mand for KImp2 { fn mand(&self, a: u64) -> u64 { self.id ^ a } }
impl Oa for KImp2 { fn oa(&self, a: u64) -> u64 { self.id ^ a ^ 1 } }
impl Ob for KImp2 { fn ob(&self, a: u64) -> u64 { self.id ^ a ^ 2 } }
impl Oc for KImp2 { fn oc(&self, a: u64) -> u64 { self.id ^ a ^ 3 } }
pub mod ma_impl {
    use super::ma::*;
    use super::*;
    cglue_impl_group!(KImp2, GS, { Oa, Ob });
}

pub mod generated;
#[cfg(kani)]
mod verif {
    use super::*;
    pub fn words<T>(t: &T) -> [usize; 12] {
        let n = core::mem::size_of::<T>() / 8;
        assert!(n <= 12);
        let mut w = [0usize; 12];
        let p = t as *const T as *const usize;
        let mut i = 0;
        while i < 12 { if i < n { w[i] = unsafe { *p.add(i) }; } i += 1; }
        w
    }
    pub fn same(a: [usize; 12], b: [usize; 12]) -> bool {
        let mut ok = true;
        let mut i = 0;
        while i < 12 { if a[i] != b[i] { ok = false; } i += 1; }
        ok
    }
    //@ prefix=p_cast kind=property clause=for implementor E and container kind: for EVERY non-empty request R, check/as_ref/as_mut/cast/into succeed iff R is a subset of E; after success mandatory and requested traits dispatch to the same instance with direct-call results; as_ref/as_mut return the same object; cast(R).upcast() has the original words
    //@ prefix=canary kind=canary clause=vacuity canary
    mod harnesses;
    pub use cglue::*;
    pub use cglue_macro::check;
    #[kani::proof]
    #[kani::unwind(14)]
    fn p_cast_forward_list() {
        // a group built from the concrete type offers exactly the traits enabled for the TYPE, whatever the
        // (smaller) forward list says; the forward list only governs groups built over Fwd<&mut T>
        use cglue::forward::ForwardMut;
        let s0: State = kani::any();
        let (id, a): (u64, u64) = kani::any();
        let mut st = s0;
        let which: u8 = kani::any();
        kani::assume(which < 3);
        let mut sd = s0;
        let d = FImp { st: &mut sd, id };
        let exp = d.fb(a);
        core::mem::forget(d);
        match which {
            0 => {
                let g = group_obj!(FImp { st: &mut st, id } as GF);
                assert!(check!(g impl FA) && check!(g impl FB) && check!(g impl FA + FB) && !check!(g impl FC) && !check!(g impl FB + FC), "C08 boxed group: exactly the traits enabled for the type");
                let c = cast!(g impl FA + FB).unwrap();
                assert!(c.fb(a) == exp, "C08 requested trait dispatches to the same instance");
                core::mem::forget(c);
                assert!(st == sd);
            }
            1 => {
                let mut inst = FImp { st: &mut st, id };
                {
                    let g = group_obj!(&mut inst as GF);
                    assert!(check!(g impl FA) && check!(g impl FB) && !check!(g impl FC), "C08 by-mut group: exactly the traits enabled for the type");
                    assert!(as_ref!(g impl FB).unwrap().fb(a) == exp);
                }
                core::mem::forget(inst);
                assert!(st == sd);
            }
            _ => {
                let mut inst = FImp { st: &mut st, id };
                {
                    let g: GFBaseBox<cglue::forward::Fwd<&mut FImp>> = From::from(cglue::forward::Fwd(&mut inst));
                    assert!(check!(g impl FA) && !check!(g impl FB) && !check!(g impl FC), "C08 group over the forward: exactly the traits of the forward list");
                }
                core::mem::forget(inst);
            }
        }
        kani::cover!(which == 2, "forward");
    }
    #[kani::proof]
    #[kani::unwind(14)]
    fn p_cast_forward_list_empty() {
        // four-argument impl with an explicitly empty forward list: the type's own groups offer
        // the owned list, a group over Fwd<&mut T> offers NO optional trait (null slots)
        let (id, a): (u64, u64) = kani::any();
        let g = group_obj!(FImp0 { id } as GF);
        assert!(check!(g impl FA) && check!(g impl FB) && !check!(g impl FC), "C08 boxed group: exactly the traits enabled for the type (empty forward list)");
        assert!(as_ref!(g impl FB).unwrap().fb(a) == id ^ a ^ 2);
        let mut inst = FImp0 { id };
        let gf: GFBaseBox<cglue::forward::Fwd<&mut FImp0>> = From::from(cglue::forward::Fwd(&mut inst));
        assert!(!check!(gf impl FA) && !check!(gf impl FB) && !check!(gf impl FC), "C08 group over the forward with an EMPTY forward list: no optional trait is offered");
        let w = words(&gf);
        assert!(w[1] == 0 && w[2] == 0 && w[3] == 0, "C08 and its optional vtable slots are null");
        kani::cover!(true, "end");
    }
    #[kani::proof]
    #[kani::unwind(14)]
    fn p_cast_clone_keeps_traits() {
        // cast to a strict subset, use a `-> Self` method (clone), cast back: every optional trait is still there
        let (id, a): (u64, u64) = kani::any();
        let g = group_obj!(KImp { id } as GK);
        let w0 = words(&g);
        let c = cast!(g impl Clone).unwrap();
        let c2 = c.clone();
        let back = c2.upcast();
        assert!(check!(back impl Oa) && check!(back impl Ob) && check!(back impl Oa + Ob + Clone), "C08 a clone taken through a subset cast still has every optional trait after casting back");
        assert!(as_ref!(back impl Ob).unwrap().ob(a) == id ^ a ^ 2 && back.mand(a) == id ^ a, "C08 and dispatches to its own instance");
        let orig = c.upcast();
        let w1 = words(&orig);
        assert!(w1[0] == w0[0] && w1[1] == w0[1] && w1[2] == w0[2] && w1[3] == w0[3], "C08 the original keeps all its vtable pointers");
        let wb = words(&back);
        assert!(wb[0] == w0[0] && wb[1] == w0[1] && wb[2] == w0[2] && wb[3] == w0[3], "C08 the clone carries the same vtable pointers as the original group");
        let mut m = orig;
        {
            let r = as_mut!(m impl Oa).unwrap();
            assert!(r.oa(a) == id ^ a ^ 1 && r.mand(a) == id ^ a, "C08 as_mut on a strict subset dispatches to the same instance");
        }
        kani::cover!(true, "end");
    }
    #[kani::proof]
    #[kani::unwind(14)]
    fn p_cast_same_named_groups() {
        // two groups called GS in different modules: each offers exactly what ITS impl enabled
        let (id, a): (u64, u64) = kani::any();
        {
            use super::ma::*;
            let g = group_obj!(KImp2 { id } as GS);
            assert!(check!(g impl Oa) && check!(g impl Ob) && check!(g impl Oa + Ob), "C08 the first of two same-named groups offers the traits its impl enabled");
            let c = cast!(g impl Oa + Ob).unwrap();
            assert!(c.oa(a) == id ^ a ^ 1 && c.ob(a) == id ^ a ^ 2 && c.mand(a) == id ^ a, "C08 and dispatches to the instance");
        }
        {
            use super::mb::*;
            let g = group_obj!(KImp2 { id } as GS);
            assert!(check!(g impl Oc) && as_ref!(g impl Oc).unwrap().oc(a) == id ^ a ^ 3, "C08 the second same-named group offers its own optional trait");
        }
        kani::cover!(true, "end");
    }
    #[kani::proof]
    #[kani::unwind(14)]
    fn p_cast_qualified_names() {
        // traits named by PATH in a request count like any other: the request succeeds iff all of
        // them (qualified or not) are enabled
        let mut st: State = kani::any();
        let (id, a): (u64, u64) = kani::any();
        use super::generated::*;
        let which: u8 = kani::any();
        kani::assume(which < 3);
        match which {
            0 => {
                let g = group_obj!(I2_Oa::new(&mut st, id) as G2);   // Oa enabled, Oc not
                assert!(!check!(g impl crate::Oc + Oa) && !check!(g impl Oa + crate::Oc), "C08 a request containing an absent trait named by path fails");
                // (requests made ONLY of qualified names are avoided on purpose: a change that
                // ignores qualified names turns them into compile errors, which would hide the rest)
                assert!(cast!(g impl crate::Oc + Oa).is_none(), "C08 cast with an absent trait named by path fails");
            }
            1 => {
                let g = group_obj!(I2_Oa::new(&mut st, id) as G2);
                assert!(into!(g impl Oa + crate::Oc).is_none(), "C08 into with an absent trait named by path fails");
            }
            _ => {
                let mut g = group_obj!(I2_Oa::new(&mut st, id) as G2);
                assert!(as_ref!(g impl crate::Oc + Oa).is_none() && as_mut!(g impl Oa + crate::Oc).is_none(), "C08 as_ref / as_mut with an absent trait named by path fail");
            }
        }
        kani::cover!(which == 0, "check/cast");
    }
    #[kani::proof]
    fn canary_c08() {
        use super::generated::*;
        let mut st: State = kani::any();
        let obj = group_obj!(I1_None::new(&mut st, 1) as G1);
        assert!(check!(obj impl Ob), "canary: deliberately false (Ob not enabled)");
    }
}

//! C13 probe, slot clauses at the vtable entry.  Shares its definitions with probes/c13 (same file);
//! kept in a crate of its own because these harnesses call the entries with their exact integer-coded
//! signature: if a change alters that signature this crate stops compiling (undecided), while the
//! signature-independent checks of probes/c13 still report the violation.
#![allow(clippy::all, unused)]
#[path = "../../c13/src/defs.rs"]
mod defs;
pub use defs::*;
#[cfg(kani)]
mod verif;

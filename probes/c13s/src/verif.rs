use super::*;
use cglue::*;
use cglue::trait_group::GetContainer;
use core::mem::MaybeUninit;
fn any_imp(calls: &mut u32) -> Imp {
    let code: i32 = kani::any();
    kani::assume(code != 0);
    Imp { ok: kani::any(), val: kani::any(), code, calls }
}
const SENTINEL: u64 = 0x0F0F_5A5A_A5A5_F0F0;
//@ prefix=p_slot kind=property clause=at the vtable entry itself: the integer code is 0 exactly for Ok, the success value is in the caller's slot then, and the slot is untouched for Err
#[kani::proof]
fn p_slot_vtable_entry() {
    let mut calls = 0u32;
    let imp = any_imp(&mut calls);
    let (ok, val, code) = (imp.ok, imp.val, imp.code);
    let a: u64 = kani::any();
    let obj = trait_obj!(imp as WithInt);
    let vt = obj.get_vtbl();
    let cont = obj.ccont_ref();
    let mut slot = MaybeUninit::<u64>::new(SENTINEL);
    let which: u8 = kani::any();
    kani::assume(which < 3);
    let rc: i32 = match which {
        0 => unsafe { (vt.payload())(cont, a, &mut slot) },
        1 => unsafe { (vt.empty())(cont) },
        _ => unsafe { (vt.io())(cont, a, &mut slot) },
    };
    let s = unsafe { slot.assume_init() };
    assert!((rc == 0) == ok, "C13 the entry returns 0 exactly for Ok");
    if ok { if which != 1 { assert!(s == val ^ a, "C13 on Ok the success value has been moved into the caller's slot"); } }
    else { assert!(rc == code, "C13 on Err the code is the error's non-zero code"); assert!(s == SENTINEL, "C13 on Err the slot is left untouched"); }
    assert!(calls == 1);
    kani::cover!(ok, "ok");
    kani::cover!(!ok && which == 2, "io err");
}
#[kani::proof]
#[kani::unwind(70)]
fn p_slot_wrapped_payload() {
    // the success payload is a wrapped associated value (an object): same slot rule
    let mut calls = 0u32;
    let imp = any_imp(&mut calls);
    let (ok, val, code) = (imp.ok, imp.val, imp.code);
    let a: u64 = kani::any();
    // (the entry ties the payload's lifetime to the container borrow; ManuallyDrop keeps the
    // borrow checker from requiring the object to outlive the slot's type)
    let obj = core::mem::ManuallyDrop::new(trait_obj!(imp as WithChild));
    {
    fn unbound<'a, T>(t: &T) -> &'a T { unsafe { &*(t as *const T) } }
    let o = unbound(&*obj);
    let vt = o.get_vtbl();
    let cont = o.ccont_ref();
    let mut slot = MaybeUninit::uninit();
    let n = core::mem::size_of_val(&slot);
    assert!(n <= 64);
    unsafe { core::ptr::write_bytes(&mut slot as *mut _ as *mut u8, 0xA5, n) };
    let rc: i32 = unsafe { (vt.make())(cont, a, &mut slot) };
    assert!((rc == 0) == ok, "C13 the entry returns 0 exactly for Ok (wrapped payload)");
    if ok {
        let child = unsafe { slot.assume_init() };
        assert!(child.kid() == val ^ a, "C13 on Ok the wrapped success value is in the caller's slot");
        drop(child);
    } else {
        assert!(rc == code, "C13 on Err the code is the error's non-zero code (wrapped payload)");
        let p = &slot as *const _ as *const u8;
        let mut i = 0;
        while i < n { assert!(unsafe { *p.add(i) } == 0xA5, "C13 on Err the slot is left untouched (wrapped payload: every byte)"); i += 1; }
    }
    }
    assert!(calls == 1);
    drop(core::mem::ManuallyDrop::into_inner(obj));
    kani::cover!(ok, "ok");
    kani::cover!(!ok, "err");
}
//@ prefix=canary kind=canary clause=vacuity canary
#[kani::proof]
fn canary_c13s() {
    let mut calls = 0u32;
    let imp = any_imp(&mut calls);
    let obj = trait_obj!(imp as WithInt);
    let mut slot = MaybeUninit::<u64>::new(SENTINEL);
    let rc = unsafe { (obj.get_vtbl().payload())(obj.ccont_ref(), 1, &mut slot) };
    assert!(rc == 0, "canary: deliberately false");
}

//! C01 probe: calls through an opaque object behave exactly like direct calls.
//! The definitions below are expanded by the REAL generator (/repo/cglue-gen via /repo/cglue-macro)
//! on every build.  Every trait has several methods with IDENTICAL signatures declared in
//! non-alphabetical order, so a mis-indexed vtable slot or a mis-paired wrapper still type-checks.
#![allow(clippy::all, unused)]
use cglue::*;
use core::pin::Pin;

#[repr(C)]
#[derive(Clone, Copy, PartialEq, Eq, Debug)]
#[cfg_attr(kani, derive(kani::Arbitrary))]
pub struct S3 { pub a: u64, pub b: u32 }

/// Observable implementor state lives OUTSIDE the instance so it can be inspected after the
/// instance has been moved into a box or consumed.
#[derive(Clone, Copy, PartialEq, Eq, Debug)]
#[cfg_attr(kani, derive(kani::Arbitrary))]
pub struct State { pub x: u64, pub calls: u32, pub log: u32, pub dropped: u32 }

pub struct Imp { pub st: *mut State, pub id: u64 }
unsafe impl Send for Imp {}
unsafe impl Sync for Imp {}
impl Imp {
    fn st(&self) -> &mut State { unsafe { &mut *self.st } }
    /// every method: bump the call counter, fold a per-method tag into the log, mix x by a
    /// per-method affine map, return a per-method function of (x, id, args)
    fn step(&self, tag: u32, mul: u64, add: u64) -> u64 {
        let s = self.st();
        s.calls = s.calls.wrapping_add(1);
        // rotate/xor/add only: multipliers make the equivalence check needlessly hard for SAT
        s.log = s.log.rotate_left(5) ^ tag;
        s.x = s.x.rotate_left((mul % 61) as u32).wrapping_add(add);
        s.x ^ self.id.rotate_left(17)
    }
}
impl Drop for Imp { fn drop(&mut self) { let s = self.st(); s.dropped = s.dropped.wrapping_add(1); } }

#[cglue_trait]
pub trait T1 {
    fn zeta(&self, a: u64) -> u64;
    fn alpha(&self, a: u64) -> u64;
    fn mid(&self, a: u64) -> u64;
    fn m_zeta(&mut self, a: u64) -> u64;
    fn m_alpha(&mut self, a: u64) -> u64;
    fn m_multi(&mut self, a: u64, b: u32, c: S3) -> S3;
    fn unit(&mut self);
    extern "C" fn ext_c(&self, a: u64) -> u64;
    unsafe fn uns(&self, a: u64) -> u64;
    fn pin_ref(self: Pin<&Self>, a: u64) -> u64;
    fn pin_mut(self: Pin<&mut Self>, a: u64) -> u64;
}
/// shared-receiver methods only: usable behind `&T` and CArcSome
#[cglue_trait]
pub trait TS {
    fn s_zeta(&self, a: u64) -> u64;
    fn s_alpha(&self, a: u64) -> u64;
    fn s_mid(&self, a: u64) -> u64;
    extern "C" fn s_ext(&self, a: u64) -> u64;
    unsafe fn s_uns(&self, a: u64) -> u64;
    fn s_pin(self: Pin<&Self>, a: u64) -> u64;
}
/// consuming methods (boxed containers only)
#[cglue_trait]
pub trait TF {
    fn fin_b(self) -> u64;
    fn peek(&self, a: u64) -> u64;
    fn fin_a(self) -> u64;
}
impl T1 for Imp {
    fn zeta(&self, a: u64) -> u64 { self.step(1, 3, a) }
    fn alpha(&self, a: u64) -> u64 { self.step(2, 5, a ^ 1) }
    fn mid(&self, a: u64) -> u64 { self.step(3, 7, a ^ 2) }
    fn m_zeta(&mut self, a: u64) -> u64 { self.id = self.id.wrapping_add(1); self.step(4, 9, a) }
    fn m_alpha(&mut self, a: u64) -> u64 { self.id = self.id.wrapping_add(2); self.step(5, 11, a) }
    fn m_multi(&mut self, a: u64, b: u32, c: S3) -> S3 { let r = self.step(6, 13, a ^ (b as u64) << 7 ^ c.a); S3 { a: r, b: c.b ^ b } }
    fn unit(&mut self) { self.step(7, 15, 99); }
    extern "C" fn ext_c(&self, a: u64) -> u64 { self.step(8, 17, a) }
    unsafe fn uns(&self, a: u64) -> u64 { self.step(9, 19, a) }
    fn pin_ref(self: Pin<&Self>, a: u64) -> u64 { self.step(10, 21, a) }
    fn pin_mut(self: Pin<&mut Self>, a: u64) -> u64 { self.step(11, 23, a) }
}
impl TS for Imp {
    fn s_zeta(&self, a: u64) -> u64 { self.step(41, 3, a) }
    fn s_alpha(&self, a: u64) -> u64 { self.step(42, 5, a ^ 1) }
    fn s_mid(&self, a: u64) -> u64 { self.step(43, 7, a ^ 2) }
    extern "C" fn s_ext(&self, a: u64) -> u64 { self.step(44, 17, a) }
    unsafe fn s_uns(&self, a: u64) -> u64 { self.step(45, 19, a) }
    fn s_pin(self: Pin<&Self>, a: u64) -> u64 { self.step(46, 21, a) }
}
impl TF for Imp {
    fn fin_b(self) -> u64 { self.step(12, 25, 1) }
    fn peek(&self, a: u64) -> u64 { self.step(14, 41, a) }
    fn fin_a(self) -> u64 { self.step(13, 27, 2) }
}

/// generic trait (instantiated at u32) and a trait with a lifetime parameter
#[cglue_trait]
pub trait TG<T> {
    fn g_two(&self, v: T) -> T;
    fn g_one(&self, v: T) -> T;
}
impl TG<u32> for Imp {
    fn g_two(&self, v: u32) -> u32 { self.step(20, 29, v as u64) as u32 ^ v }
    fn g_one(&self, v: u32) -> u32 { self.step(21, 31, v as u64) as u32 ^ v.rotate_left(3) }
}
#[cglue_trait]
pub trait TL<'a, T: Copy + 'a> {
    fn l_b(&self, v: T) -> T;
    fn l_a(&self, v: T) -> T;
}
impl<'a> TL<'a, u64> for Imp {
    fn l_b(&self, v: u64) -> u64 { self.step(22, 33, v) }
    fn l_a(&self, v: u64) -> u64 { self.step(23, 35, v ^ 5) }
}
/// second plain trait so groups have something to cast to
#[cglue_trait]
pub trait T2 {
    fn two_b(&self, a: u64) -> u64;
    fn two_a(&mut self, a: u64) -> u64;
}
impl T2 for Imp {
    fn two_b(&self, a: u64) -> u64 { self.step(30, 37, a) }
    fn two_a(&mut self, a: u64) -> u64 { self.step(31, 39, a) }
}

/// forwarded trait (usable through `Fwd<&mut T>` / `Fwd<&T>`), with a supertrait bound, a default
/// method body the implementor does not override, and a `mut` argument pattern
#[cglue_trait]
#[cglue_forward]
pub trait TW: Send {
    fn w_set(&mut self, a: u64, b: u64) -> u64;
    fn w_get(&self, a: u64) -> u64;
    fn w_default(&mut self, a: u64) -> u64 { let a = a.rotate_left(3); let r = self.w_get(a); self.w_set(r, a) }
    fn w_alt(&self, a: u64) -> u64;
}
impl TW for Imp {
    fn w_set(&mut self, mut a: u64, b: u64) -> u64 { a ^= b.rotate_left(9); self.id = self.id.wrapping_add(a); self.step(50, 41, a) }
    fn w_get(&self, a: u64) -> u64 { self.step(51, 43, a) }
    fn w_alt(&self, a: u64) -> u64 { self.step(52, 45, a ^ 7) }
}
/// `mut` argument pattern with a default body the implementor does not override
#[cglue_trait]
pub trait TM {
    fn m_base(&mut self, a: u64) -> u64;
    fn m_where(&self, a: u64) -> u64 where Self: Sized { a ^ 0xDEFA }
    fn m_where_generic_bound(&mut self, a: u64) -> u64 where u64: Copy { a }
    fn m_mutarg(&mut self, mut a: u64, mut b: u32) -> u64 { a = a.rotate_left(b % 64); b = b.wrapping_add(1); self.m_base(a ^ b as u64) }
}
impl TM for Imp {
    fn m_base(&mut self, a: u64) -> u64 { self.step(55, 49, a) }
    fn m_where(&self, a: u64) -> u64 { self.step(56, 51, a) }
    fn m_where_generic_bound(&mut self, a: u64) -> u64 { self.step(57, 53, a) }
}
/// `#[skip_func]` between exported methods (no vtable slot: the trait's default body runs on the
/// opaque object and calls the exported neighbours), and a user-wrapped associated return type
/// with a conversion closure
#[cglue_trait]
pub trait TK {
    #[wrap_with(u64)]
    #[return_wrap(|ret| Into::<u64>::into(ret).rotate_left(7) ^ 0x5A)]
    type R: Into<u64>;
    fn k_b(&self, a: u64) -> u64;
    #[skip_func]
    fn k_skip(&self, a: u64) -> u64 { self.k_b(a ^ 1) ^ self.k_a(a) }
    fn k_a(&self, a: u64) -> u64;
    fn k_get(&self, a: u64) -> Self::R;
    fn k_c(&self, a: u64) -> u64;
}
impl TK for Imp {
    type R = u32;
    fn k_b(&self, a: u64) -> u64 { self.step(70, 3, a) }
    fn k_a(&self, a: u64) -> u64 { self.step(71, 5, a ^ 3) }
    fn k_get(&self, a: u64) -> u32 { self.step(72, 7, a) as u32 }
    fn k_c(&self, a: u64) -> u64 { self.step(73, 9, a ^ 5) }
}
/// user-declared external trait: the real trait lives elsewhere, `#[cglue_trait_ext]` only
/// generates the glue from a repeated definition
pub mod extdefs {
    pub trait TX {
        fn x_b(&self, a: u64) -> u64;
        fn x_a(&mut self, a: u64) -> u64;
        fn x_c(&self, a: u64) -> u64;
    }
}
pub use extdefs::TX;
#[cglue_trait_ext]
pub trait TX {
    fn x_b(&self, a: u64) -> u64;
    fn x_a(&mut self, a: u64) -> u64;
    fn x_c(&self, a: u64) -> u64;
}
impl TX for Imp {
    fn x_b(&self, a: u64) -> u64 { self.step(80, 3, a) }
    fn x_a(&mut self, a: u64) -> u64 { self.id = self.id.wrapping_add(3); self.step(81, 5, a) }
    fn x_c(&self, a: u64) -> u64 { self.step(82, 7, a ^ 9) }
}
/// two getters returning BORROWED wrapped children of the same associated type: both results can
/// be held at once (shared receivers), each reaches its own instance
#[cglue_trait]
pub trait TKid { fn kid_get(&self, a: u64) -> u64; }
pub struct Kid2 { pub st: *mut State, pub id: u64 }
impl TKid for Kid2 { fn kid_get(&self, a: u64) -> u64 { let s = unsafe { &mut *self.st }; s.calls = s.calls.wrapping_add(1); s.log = s.log.rotate_left(5) ^ (self.id as u32); a ^ self.id.rotate_left(9) } }
pub struct Pair { pub left: Kid2, pub right: Kid2 }
#[cglue_trait]
pub trait TPair {
    #[wrap_with_obj_ref(TKid)]
    type K: TKid + 'static;
    fn right(&self) -> &Self::K;
    fn left(&self) -> &Self::K;
}
impl TPair for Pair { type K = Kid2; fn right(&self) -> &Kid2 { &self.right } fn left(&self) -> &Kid2 { &self.left } }
/// a USER trait that merely shares its name with a builtin external trait, reached through a
/// relative path
pub mod units {
    use cglue::*;
    #[cglue_trait]
    pub trait Display { fn show(&self, a: u64) -> u64; fn show_mut(&mut self, a: u64) -> u64; }
}
impl units::Display for Imp {
    fn show(&self, a: u64) -> u64 { self.step(90, 3, a) }
    fn show_mut(&mut self, a: u64) -> u64 { self.id = self.id.wrapping_add(5); self.step(91, 5, a) }
}
impl core::fmt::Display for Imp { fn fmt(&self, f: &mut core::fmt::Formatter) -> core::fmt::Result { f.write_str("imp") } }
/// builtin external trait
impl AsRef<u64> for Imp { fn as_ref(&self) -> &u64 { let _ = self.step(60, 47, 0); &self.id } }

cglue_trait_group!(G1, T1, { T2, TG<u32> = TGu32 });
cglue_impl_group!(Imp, G1, { T2, TG<u32> = TGu32 });

#[cfg(kani)]
mod verif;

//! Refinement contract of the generated glue against the direct trait call:
//!   { WF(obj) /\ state = s }  obj.m(a)  { ret = (Imp::m)(s, a).ret /\ state' = (Imp::m)(s, a).state /\ words(obj) unchanged }
//! WF(obj) := the raw words of obj equal those of a freshly constructed object over the same instance.
//! Construction establishes WF, every call preserves the words, so every finite call sequence
//! follows by induction; s and a are fully symbolic.
use super::*;
use cglue::arc::{CArc, CArcSome};
use cglue::boxed::CBox;
use core::pin::Pin;

fn words<T>(t: &T) -> [usize; 8] {
    let n = core::mem::size_of::<T>() / core::mem::size_of::<usize>();
    assert!(n <= 8 && core::mem::size_of::<T>() % core::mem::size_of::<usize>() == 0);
    let mut w = [0usize; 8];
    let p = t as *const T as *const usize;
    let mut i = 0;
    while i < 8 { if i < n { w[i] = unsafe { *p.add(i) }; } i += 1; }
    w
}

fn same(a: [usize; 8], b: [usize; 8]) -> bool {
    let mut ok = true;
    let mut i = 0;
    while i < 8 { if a[i] != b[i] { ok = false; } i += 1; }
    ok
}
/// one symbolic call of a `&self`/`&mut self` method of T1, selected by `m`, on anything implementing T1
macro_rules! call_t1 {
    ($o:expr, $m:expr, $a:expr, $b:expr, $c:expr) => {
        match $m {
            0 => ($o.zeta($a), 0u32),
            1 => ($o.alpha($a), 0),
            2 => ($o.mid($a), 0),
            3 => ($o.m_zeta($a), 0),
            4 => ($o.m_alpha($a), 0),
            5 => { let r = $o.m_multi($a, $b, $c); (r.a, r.b) }
            6 => { $o.unit(); (0, 0) }
            7 => ($o.ext_c($a), 0),
            8 => (unsafe { $o.uns($a) }, 0),
            9 => (Pin::new(&$o).pin_ref($a), 0),
            _ => (Pin::new(&mut $o).pin_mut($a), 0),
        }
    };
}
macro_rules! call_ts {
    ($o:expr, $m:expr, $a:expr) => {
        match $m {
            0 => $o.s_zeta($a),
            1 => $o.s_alpha($a),
            2 => $o.s_mid($a),
            3 => $o.s_ext($a),
            4 => unsafe { $o.s_uns($a) },
            _ => Pin::new(&$o).s_pin($a),
        }
    };
}
fn direct_ts(s0: State, id: u64, m: u8, a: u64) -> (u64, State) {
    let mut st = s0;
    let imp = Imp { st: &mut st, id };
    let r = call_ts!(imp, m, a);
    core::mem::forget(imp);
    (r, st)
}

struct Case { s0: State, id: u64, m: u8, a: u64, b: u32, c: S3 }
fn any_case(nm: u8) -> Case {
    let m: u8 = kani::any();
    kani::assume(m < nm);
    Case { s0: kani::any(), id: kani::any(), m, a: kani::any(), b: kani::any(), c: kani::any() }
}
/// the direct call: the specification
fn direct(c: &Case) -> ((u64, u32), State, u64) {
    let mut st = c.s0;
    let mut imp = Imp { st: &mut st, id: c.id };
    let r = call_t1!(imp, c.m, c.a, c.b, c.c);
    let id = imp.id;
    core::mem::forget(imp);
    (r, st, id)
}

//@ prefix=p_box kind=property clause=boxed single-trait object: for every method, symbolic state and arguments, the call returns what the direct call returns, leaves the instance in the same state (call counter and per-method tag log included: same name, same instance, exactly once), and leaves the object's words unchanged
#[kani::proof]
#[kani::unwind(9)]
fn p_box_t1() {
    let c = any_case(11);
    let (r1, s1, id1) = direct(&c);
    let mut st = c.s0;
    let mut obj = trait_obj!(Imp { st: &mut st, id: c.id } as T1);
    let w0 = words(&obj);
    let r2 = call_t1!(obj, c.m, c.a, c.b, c.c);
    assert!(r1 == r2, "C01 same result as the direct call");
    assert!(same(words(&obj), w0), "C01 frame: the object's words are unchanged by the call");
    core::mem::forget(obj);
    assert!(st == s1, "C01 same instance state as after the direct call (exactly one call, right method)");
    let _ = id1;
    kani::cover!(c.m == 0, "first declared");
    kani::cover!(c.m == 10, "pin_mut");
}
//@ prefix=p_mut kind=property clause=by-mutable-reference object: same contract; additionally the borrowed instance itself (its own fields) ends up as after the direct call
#[kani::proof]
#[kani::unwind(9)]
fn p_mut_t1() {
    let c = any_case(11);
    let (r1, s1, id1) = direct(&c);
    let mut st = c.s0;
    let mut imp = Imp { st: &mut st, id: c.id };
    {
        let mut obj = trait_obj!(&mut imp as T1);
        let w0 = words(&obj);
        let r2 = call_t1!(obj, c.m, c.a, c.b, c.c);
        assert!(r1 == r2, "C01 same result as the direct call");
        assert!(same(words(&obj), w0), "C01 frame: the object's words are unchanged by the call");
    }
    assert!(imp.id == id1, "C01 the call reached the same instance (its own field updated as by the direct call)");
    core::mem::forget(imp);
    assert!(st == s1, "C01 same instance state as after the direct call");
}
//@ prefix=p_ref kind=property clause=by-reference and reference-counted (CArcSome) objects: same contract for the shared-receiver methods
#[kani::proof]
#[kani::unwind(9)]
fn p_ref_ts() {
    let (s0, id, a): (State, u64, u64) = kani::any();
    let m: u8 = kani::any();
    kani::assume(m < 6);
    let (r1, s1) = direct_ts(s0, id, m, a);
    let mut st = s0;
    let imp = Imp { st: &mut st, id };
    {
        let obj = trait_obj!(&imp as TS);
        let w0 = words(&obj);
        let r2 = call_ts!(obj, m, a);
        assert!(r1 == r2, "C01 same result as the direct call");
        assert!(same(words(&obj), w0), "C01 frame");
    }
    core::mem::forget(imp);
    assert!(st == s1, "C01 same instance state as after the direct call");
    kani::cover!(m == 5, "pin");
}
#[kani::proof]
#[kani::unwind(9)]
fn p_ref_arc_ts() {
    let (s0, id, a): (State, u64, u64) = kani::any();
    let m: u8 = kani::any();
    kani::assume(m < 6);
    let (r1, s1) = direct_ts(s0, id, m, a);
    let mut st = s0;
    let obj = trait_obj!(CArcSome::from(Imp { st: &mut st, id }) as TS);
    let w0 = words(&obj);
    let r2 = call_ts!(obj, m, a);
    assert!(r1 == r2, "C01 same result as the direct call");
    assert!(same(words(&obj), w0), "C01 frame");
    core::mem::forget(obj);
    assert!(st == s1, "C01 same instance state as after the direct call");
}
#[kani::proof]
#[kani::unwind(9)]
fn p_ref_box_ts() {
    let (s0, id, a): (State, u64, u64) = kani::any();
    let m: u8 = kani::any();
    kani::assume(m < 6);
    let (r1, s1) = direct_ts(s0, id, m, a);
    let mut st = s0;
    let obj = trait_obj!(Imp { st: &mut st, id } as TS);
    let r2 = call_ts!(obj, m, a);
    assert!(r1 == r2, "C01 same result as the direct call");
    core::mem::forget(obj);
    assert!(st == s1, "C01 same instance state as after the direct call");
}
//@ prefix=p_ctx kind=property clause=objects with a context (Box+CArc context, &mut+context): same contract
#[kani::proof]
#[kani::unwind(9)]
fn p_ctx_box_t1() {
    let c = any_case(11);
    let (r1, s1, _) = direct(&c);
    let mut st = c.s0;
    let ctx = CArc::from(7u64);
    let mut obj = trait_obj!((Imp { st: &mut st, id: c.id }, ctx) as T1);
    let w0 = words(&obj);
    let r2 = call_t1!(obj, c.m, c.a, c.b, c.c);
    assert!(r1 == r2, "C01 same result as the direct call");
    assert!(same(words(&obj), w0), "C01 frame");
    core::mem::forget(obj);
    assert!(st == s1, "C01 same instance state as after the direct call");
}
#[kani::proof]
#[kani::unwind(9)]
fn p_ctx_mut_t1() {
    let c = any_case(11);
    let (r1, s1, id1) = direct(&c);
    let mut st = c.s0;
    let mut imp = Imp { st: &mut st, id: c.id };
    {
        let mut obj = trait_obj!((&mut imp, CArc::from(7u64)) as T1);
        let w0 = words(&obj);
        let r2 = call_t1!(obj, c.m, c.a, c.b, c.c);
        assert!(r1 == r2, "C01 same result as the direct call");
        assert!(same(words(&obj), w0), "C01 frame");
        core::mem::forget(obj);
    }
    assert!(imp.id == id1);
    core::mem::forget(imp);
    assert!(st == s1, "C01 same instance state as after the direct call");
}
//@ prefix=p_fin kind=property clause=consuming (by-value) methods: same result and state as the direct call, the instance is consumed exactly once
#[kani::proof]
#[kani::unwind(9)]
fn p_fin_box() {
    let s0: State = kani::any();
    let id: u64 = kani::any();
    let which: bool = kani::any();
    let mut sd = s0;
    let a0: u64 = kani::any();
    let pre0: bool = kani::any();
    let r1 = { let imp = Imp { st: &mut sd, id }; if pre0 { let _ = imp.peek(a0); } if which { imp.fin_b() } else { imp.fin_a() } };
    let mut st = s0;
    let obj = trait_obj!(Imp { st: &mut st, id } as TF);
    let (a, pre) = (a0, pre0);
    if pre { let _ = obj.peek(a); }
    let r2 = if which { obj.fin_b() } else { obj.fin_a() };
    assert!(r1 == r2, "C01 same result as the direct call");
    assert!(st == sd, "C01 same state as after the direct by-value call (incl. the instance dropped exactly once)");
    kani::cover!(which, "fin_b");
    kani::cover!(!which, "fin_a");
}
//@ prefix=p_gen kind=property clause=generic trait (instantiated) and lifetime-parameterised trait: same contract
#[kani::proof]
#[kani::unwind(9)]
fn p_gen_lt() {
    let s0: State = kani::any();
    let id: u64 = kani::any();
    let v: u32 = kani::any();
    let w: u64 = kani::any();
    let m: u8 = kani::any();
    kani::assume(m < 4);
    let mut sd = s0;
    let d = Imp { st: &mut sd, id };
    let r1 = match m { 0 => d.g_two(v) as u64, 1 => d.g_one(v) as u64, 2 => d.l_b(w), _ => d.l_a(w) };
    core::mem::forget(d);
    let mut st = s0;
    let r2 = if m < 2 {
        let obj = trait_obj!(Imp { st: &mut st, id } as TG);
        let r = if m == 0 { obj.g_two(v) as u64 } else { obj.g_one(v) as u64 };
        core::mem::forget(obj);
        r
    } else {
        let obj = trait_obj!(Imp { st: &mut st, id } as TL);
        let r = if m == 2 { obj.l_b(w) } else { obj.l_a(w) };
        core::mem::forget(obj);
        r
    };
    assert!(r1 == r2, "C01 same result as the direct call");
    assert!(st == sd, "C01 same instance state as after the direct call");
}
//@ prefix=p_fwd kind=property clause=forwarded traits: an object built over Fwd(&mut T) / a Fwd used directly behaves as the direct call (incl. a default method body, a `mut` argument pattern, a supertrait bound); the builtin external trait AsRef through an object returns the implementor's own reference
#[kani::proof]
#[kani::unwind(9)]
fn p_fwd_tw() {
    use cglue::forward::{Forward, ForwardMut, Fwd};
    let (s0, id, a, b): (State, u64, u64, u64) = kani::any();
    let m: u8 = kani::any();
    kani::assume(m < 4);
    let mut sd = s0;
    let mut d = Imp { st: &mut sd, id };
    let r1 = match m { 0 => d.w_set(a, b), 1 => d.w_get(a), 2 => d.w_default(a), _ => d.w_alt(a) };
    let id1 = d.id;
    core::mem::forget(d);
    let route: u8 = kani::any();
    kani::assume(route < 2);
    let mut st = s0;
    let mut imp = Imp { st: &mut st, id };
    let r2 = match route {
        0 => { let mut o = trait_obj!(&mut imp as TW); match m { 0 => o.w_set(a, b), 1 => o.w_get(a), 2 => o.w_default(a), _ => o.w_alt(a) } }
        _ => { let mut f = (&mut imp).forward_mut(); match m { 0 => f.w_set(a, b), 1 => f.w_get(a), 2 => f.w_default(a), _ => f.w_alt(a) } }
    };
    assert!(r1 == r2, "C01 same result as the direct call (forwarded trait)");
    assert!(imp.id == id1, "C01 same instance updated as by the direct call (forwarded trait)");
    core::mem::forget(imp);
    assert!(st == sd, "C01 same instance state as after the direct call (forwarded trait)");
    kani::cover!(route == 0 && m == 2, "object, default method");
    kani::cover!(route == 1 && m == 0, "Fwd directly");
}
#[kani::proof]
#[kani::unwind(9)]
fn p_fwd_asref_ext() {
    let (s0, id, a): (State, u64, u64) = kani::any();
    let b: u32 = kani::any();
    let which: bool = kani::any();
    let sub: u8 = kani::any();
    kani::assume(sub < 3);
    let mut sd = s0;
    let mut d = Imp { st: &mut sd, id };
    let r1 = if which { *AsRef::<u64>::as_ref(&d) } else { match sub { 0 => d.m_mutarg(a, b), 1 => d.m_where(a), _ => d.m_where_generic_bound(a) } };
    core::mem::forget(d);
    let mut st = s0;
    let imp = Imp { st: &mut st, id };
    let r2 = if which {
        let o = trait_obj!(imp as AsRef<u64>);
        let r: u64 = *o.as_ref();
        core::mem::forget(o);
        r
    } else {
        let mut o = trait_obj!(imp as TM);
        let r = match sub { 0 => o.m_mutarg(a, b), 1 => o.m_where(a), _ => o.m_where_generic_bound(a) };
        core::mem::forget(o);
        r
    };
    assert!(r1 == r2, "C01 same result as the direct call (builtin external trait AsRef / default body with `mut` arguments)");
    assert!(st == sd, "C01 same instance state as after the direct call (AsRef / default body with `mut` arguments)");
    kani::cover!(which, "AsRef");
    kani::cover!(!which && sub == 0, "mut args");
    kani::cover!(!which && sub == 1, "where-clause method with an overridden default body");
}
//@ prefix=p_ext kind=property clause=a `#[skip_func]` method (default body over exported neighbours), a `#[wrap_with]`/`#[return_wrap]` associated return (result = the user's conversion of the direct result, applied once) and a user-declared external trait (`#[cglue_trait_ext]`): same result and state as the direct calls
#[kani::proof]
#[kani::unwind(9)]
fn p_ext_skip_wrap() {
    let (s0, id, a): (State, u64, u64) = kani::any();
    let m: u8 = kani::any();
    kani::assume(m < 8);
    let mut sd = s0;
    let mut d = Imp { st: &mut sd, id };
    let r1 = match m {
        0 => d.k_b(a), 1 => d.k_skip(a), 2 => d.k_a(a), 3 => (d.k_get(a) as u64).rotate_left(7) ^ 0x5A, 4 => d.k_c(a),
        5 => d.x_b(a), 6 => d.x_a(a), _ => d.x_c(a),
    };
    let id1 = d.id;
    core::mem::forget(d);
    let mut st = s0;
    let mut imp = Imp { st: &mut st, id };
    let r2 = if m < 5 {
        let o = trait_obj!(&imp as TK);
        match m { 0 => o.k_b(a), 1 => o.k_skip(a), 2 => o.k_a(a), 3 => o.k_get(a), _ => o.k_c(a) }
    } else {
        let mut o = trait_obj!(&mut imp as TX);
        match m { 5 => TX::x_b(&o, a), 6 => TX::x_a(&mut o, a), _ => TX::x_c(&o, a) }
    };
    assert!(r1 == r2, "C01 same result as the direct call (skip_func / return_wrap / user external trait)");
    assert!(imp.id == id1, "C01 same instance updated as by the direct call (user external trait)");
    core::mem::forget(imp);
    assert!(st == sd, "C01 same instance state as after the direct call (skip_func / return_wrap / user external trait)");
    kani::cover!(m == 1, "skipped method");
    kani::cover!(m == 3, "return_wrap");
    kani::cover!(m == 6, "external trait, &mut");
}
#[kani::proof]
#[kani::unwind(9)]
fn p_ext_two_borrowed_children() {
    // two borrowed wrapped children of the same type obtained from one object and HELD TOGETHER:
    // each call reaches the child the direct call reaches (the second getter must not redirect
    // the first result)
    let s0: State = kani::any();
    let (idl, idr, a, b): (u64, u64, u64, u64) = kani::any();
    kani::assume(idl != idr);
    let order: bool = kani::any();
    let mut sd = s0;
    let pd = Pair { left: Kid2 { st: &mut sd, id: idl }, right: Kid2 { st: &mut sd, id: idr } };
    let (x1, y1) = { let (l, r) = if order { let l = pd.left(); let r = pd.right(); (l, r) } else { let r = pd.right(); let l = pd.left(); (l, r) }; (l.kid_get(a), r.kid_get(b)) };
    let mut st = s0;
    let p = Pair { left: Kid2 { st: &mut st, id: idl }, right: Kid2 { st: &mut st, id: idr } };
    let obj = trait_obj!(&p as TPair);
    let (x2, y2) = { let (l, r) = if order { let l = obj.left(); let r = obj.right(); (l, r) } else { let r = obj.right(); let l = obj.left(); (l, r) }; (l.kid_get(a), r.kid_get(b)) };
    assert!(x1 == x2 && y1 == y2, "C01 same results as the direct calls (two borrowed children held together)");
    assert!(st == sd, "C01 same instances reached as by the direct calls (two borrowed children held together)");
    kani::cover!(order, "left first");
    kani::cover!(!order, "right first");
}
#[kani::proof]
#[kani::unwind(9)]
fn p_ext_user_trait_named_like_builtin() {
    // `trait_obj!(v as units::Display)`: the user's own trait (path given), not the builtin one
    let (s0, id, a): (State, u64, u64) = kani::any();
    let mutating: bool = kani::any();
    let mut sd = s0;
    let mut d = Imp { st: &mut sd, id };
    let r1 = if mutating { units::Display::show_mut(&mut d, a) } else { units::Display::show(&d, a) };
    let id1 = d.id;
    core::mem::forget(d);
    let mut st = s0;
    let mut imp = Imp { st: &mut st, id };
    let r2 = { use units::Display as _; let mut o = trait_obj!(&mut imp as units::Display); if mutating { o.show_mut(a) } else { o.show(a) } };
    assert!(r1 == r2 && imp.id == id1, "C01 same result and instance as the direct call (user trait named like a builtin one, given by path)");
    core::mem::forget(imp);
    assert!(st == sd, "C01 same instance state as after the direct call (user trait named like a builtin one)");
    kani::cover!(mutating, "mutating");
}
//@ prefix=p_grp kind=property clause=group object and successful casts of it (cast!, as_ref!, as_mut!, into!): mandatory and optional trait methods satisfy the same contract, on the same instance
#[kani::proof]
#[kani::unwind(9)]
fn p_grp_mandatory() {
    let c = any_case(11);
    let (r1, s1, _) = direct(&c);
    let mut st = c.s0;
    let mut obj = group_obj!(Imp { st: &mut st, id: c.id } as G1);
    let w0 = words(&obj);
    let r2 = call_t1!(obj, c.m, c.a, c.b, c.c);
    assert!(r1 == r2, "C01 same result as the direct call");
    assert!(same(words(&obj), w0), "C01 frame");
    core::mem::forget(obj);
    assert!(st == s1, "C01 same instance state as after the direct call");
}
#[kani::proof]
#[kani::unwind(9)]
fn p_grp_cast() {
    let s0: State = kani::any();
    let id: u64 = kani::any();
    let a: u64 = kani::any();
    let v: u32 = kani::any();
    let m: u8 = kani::any();
    kani::assume(m < 6);
    let mut sd = s0;
    let mut d = Imp { st: &mut sd, id };
    let r1 = match m { 0 => d.two_b(a), 1 => d.two_a(a), 2 => d.g_two(v) as u64, 3 => d.g_one(v) as u64, 4 => d.zeta(a), _ => d.m_alpha(a) };
    core::mem::forget(d);
    let mut st = s0;
    let obj = group_obj!(Imp { st: &mut st, id } as G1);
    let route: u8 = kani::any();
    kani::assume(route < 4);
    let r2 = match route {
        0 => {
            let mut c = cast!(obj impl T2 + TGu32).unwrap();
            let r = match m { 0 => c.two_b(a), 1 => c.two_a(a), 2 => c.g_two(v) as u64, 3 => c.g_one(v) as u64, 4 => c.zeta(a), _ => c.m_alpha(a) };
            core::mem::forget(c);
            r
        }
        1 => {
            let r = {
                let c = as_ref!(obj impl T2 + TGu32).unwrap();
                match m { 0 => c.two_b(a), 2 => c.g_two(v) as u64, 3 => c.g_one(v) as u64, 4 => c.zeta(a), _ => { kani::assume(false); 0 } }
            };
            core::mem::forget(obj);
            r
        }
        2 => {
            let mut obj = obj;
            let r = {
                let c = as_mut!(obj impl T2 + TGu32).unwrap();
                match m { 0 => c.two_b(a), 1 => c.two_a(a), 2 => c.g_two(v) as u64, 3 => c.g_one(v) as u64, 4 => c.zeta(a), _ => c.m_alpha(a) }
            };
            core::mem::forget(obj);
            r
        }
        _ => {
            let mut c = into!(obj impl T2 + TGu32).unwrap();
            let r = match m { 0 => c.two_b(a), 1 => c.two_a(a), 2 => c.g_two(v) as u64, 3 => c.g_one(v) as u64, 4 => c.zeta(a), _ => c.m_alpha(a) };
            core::mem::forget(c);
            r
        }
    };
    assert!(r1 == r2, "C01 same result as the direct call (through a cast of the group)");
    assert!(st == sd, "C01 same instance state as after the direct call (through a cast of the group)");
    kani::cover!(route == 0, "cast");
    kani::cover!(route == 1 && m == 0, "as_ref");
    kani::cover!(route == 2, "as_mut");
    kani::cover!(route == 3, "into");
}
#[kani::proof]
#[kani::unwind(9)]
fn p_grp_cast_subset() {
    // casts to a STRICT SUBSET of the optional traits (each single one of the two), all four
    // routes: the requested trait's methods and the mandatory ones reach the same instance
    let s0: State = kani::any();
    let (id, a): (u64, u64) = kani::any();
    let v: u32 = kani::any();
    let second: bool = kani::any(); // false: T2 only, true: TGu32 only
    let m: u8 = kani::any();
    kani::assume(m < 4);
    let mut sd = s0;
    let mut d = Imp { st: &mut sd, id };
    let r1 = match (second, m) { (false, 0) => d.two_b(a), (false, 1) => d.two_a(a), (true, 0) => d.g_two(v) as u64, (true, 1) => d.g_one(v) as u64, (_, 2) => d.zeta(a), _ => d.m_alpha(a) };
    core::mem::forget(d);
    let mut st = s0;
    let obj = group_obj!(Imp { st: &mut st, id } as G1);
    let route: u8 = kani::any();
    kani::assume(route < 4);
    macro_rules! call_first { ($c:expr) => { match m { 0 => $c.two_b(a), 1 => $c.two_a(a), 2 => $c.zeta(a), _ => $c.m_alpha(a) } } }
    macro_rules! call_second { ($c:expr) => { match m { 0 => $c.g_two(v) as u64, 1 => $c.g_one(v) as u64, 2 => $c.zeta(a), _ => $c.m_alpha(a) } } }
    let r2 = match (route, second) {
        (0, false) => { let mut c = cast!(obj impl T2).unwrap(); let r = call_first!(c); core::mem::forget(c); r }
        (0, true) => { let mut c = cast!(obj impl TGu32).unwrap(); let r = call_second!(c); core::mem::forget(c); r }
        (1, false) => { let mut obj = obj; let r = { let c = as_mut!(obj impl T2).unwrap(); call_first!(c) }; core::mem::forget(obj); r }
        (1, true) => { let mut obj = obj; let r = { let c = as_mut!(obj impl TGu32).unwrap(); call_second!(c) }; core::mem::forget(obj); r }
        (2, false) => { let mut c = into!(obj impl T2).unwrap(); let r = call_first!(c); core::mem::forget(c); r }
        (2, true) => { let mut c = into!(obj impl TGu32).unwrap(); let r = call_second!(c); core::mem::forget(c); r }
        (_, false) => { kani::assume(m == 0 || m == 2); let r = { let c = as_ref!(obj impl T2).unwrap(); if m == 0 { c.two_b(a) } else { c.zeta(a) } }; core::mem::forget(obj); r }
        (_, true) => { kani::assume(m != 3); let r = { let c = as_ref!(obj impl TGu32).unwrap(); match m { 0 => c.g_two(v) as u64, 1 => c.g_one(v) as u64, _ => c.zeta(a) } }; core::mem::forget(obj); r }
    };
    assert!(r1 == r2, "C01 same result as the direct call (through a cast of the group to a subset of its optional traits)");
    assert!(st == sd, "C01 same instance state as after the direct call (through a cast to a subset)");
    kani::cover!(route == 1 && second && m == 1, "as_mut to the second optional trait only");
    kani::cover!(route == 2 && !second, "into the first optional trait only");
    kani::cover!(route == 3 && second, "as_ref to the second optional trait only");
}
//@ prefix=b_hist kind=property clause=bounded cross-check: three symbolic calls through ONE object equal the same three direct calls
#[kani::proof]
#[kani::unwind(9)]
fn b_hist_box3() {
    let s0: State = kani::any();
    let id: u64 = kani::any();
    let mut sd = s0;
    let mut d = Imp { st: &mut sd, id };
    let mut st = s0;
    let mut obj = trait_obj!(Imp { st: &mut st, id } as T1);
    let mut i = 0;
    while i < 3 {
        let m: u8 = kani::any();
        kani::assume(m < 11);
        let a: u64 = kani::any();
        let b: u32 = kani::any();
        let c: S3 = kani::any();
        let r1 = call_t1!(d, m, a, b, c);
        let r2 = call_t1!(obj, m, a, b, c);
        assert!(r1 == r2, "C01 history: same result");
        i += 1;
    }
    core::mem::forget(d);
    core::mem::forget(obj);
    assert!(st == sd, "C01 history: same final state");
}
//@ prefix=canary kind=canary clause=vacuity canary
#[kani::proof]
#[kani::unwind(9)]
fn canary_c01() {
    let c = any_case(11);
    let mut st = c.s0;
    let mut obj = trait_obj!(Imp { st: &mut st, id: c.id } as T1);
    let r2 = call_t1!(obj, c.m, c.a, c.b, c.c);
    core::mem::forget(obj);
    assert!(st.calls == c.s0.calls, "canary: deliberately false (the call counter moved)");
}

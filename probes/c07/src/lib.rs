//! C07 probe: the context lives as long as any derived object, and no longer.
#![allow(clippy::all, unused)]
use cglue::arc::CArc;
use cglue::*;
use std::sync::{Arc, Weak};

pub static mut CTX_DROPPED: u32 = 0;
/// payload behind the context handle (stands for the loaded plugin library)
pub struct CtxPayload { pub magic: u32 }
impl Drop for CtxPayload { fn drop(&mut self) { assert!(self.magic == 0xC7); unsafe { CTX_DROPPED += 1 } } }
pub type Ctx = CArc<CtxPayload>;

/// strong count observed from inside the instance's destructor
pub static mut COUNT_DURING_INSTANCE_DROP: usize = usize::MAX;
impl Drop for Imp { fn drop(&mut self) { unsafe { COUNT_DURING_INSTANCE_DROP = self.watch.strong_count() } } }
/// strong count observed from inside a by-value method
pub static mut COUNT_DURING_CONSUME: usize = 0;

#[derive(Clone)]
pub struct Imp { pub id: u32, pub watch: Weak<CtxPayload>, pub kid: Kid }
#[derive(Clone)]
pub struct Kid { pub id: u32 }

#[cglue_trait]
pub trait Leaf { fn leaf(&self) -> u32; }
impl Leaf for Kid { fn leaf(&self) -> u32 { self.id } }
impl Leaf for Imp { fn leaf(&self) -> u32 { self.id } }
cglue_trait_group!(LeafGroup, { Leaf }, { Clone });
cglue_impl_group!(Kid, LeafGroup, { Clone });
cglue_impl_group!(Imp, LeafGroup, { Clone });

#[cglue_trait]
pub trait Parent {
    #[wrap_with_obj(Leaf)]
    type Owned: Leaf + 'static;
    #[wrap_with_group(LeafGroup)]
    type OwnedG: Leaf + 'static;
    fn child(&self, id: u32) -> Self::Owned;
    fn child_group(&self, id: u32) -> Self::OwnedG;
    fn into_child(self) -> Self::Owned;
    fn finish(self) -> u32;
    fn ping(&self) -> u32;
}
impl Parent for Imp {
    type Owned = Kid;
    type OwnedG = Kid;
    fn child(&self, id: u32) -> Kid { Kid { id } }
    fn child_group(&self, id: u32) -> Kid { Kid { id } }
    fn into_child(self) -> Kid { unsafe { COUNT_DURING_CONSUME = self.watch.strong_count() }; let id = self.id ^ 1; Kid { id } }
    fn finish(self) -> u32 { unsafe { COUNT_DURING_CONSUME = self.watch.strong_count() }; self.id }
    fn ping(&self) -> u32 { self.id }
}

/// consuming method on a GROUP object (the group's own generated container hands out instance and context)
#[cglue_trait]
pub trait Fin { fn fin(self) -> u32; fn fin_peek(&self) -> u32; }
impl Fin for Imp {
    fn fin(self) -> u32 { unsafe { COUNT_DURING_CONSUME = self.watch.strong_count() }; self.id ^ 0xF1 }
    fn fin_peek(&self) -> u32 { self.id }
}
cglue_trait_group!(FinGroup, { Fin }, { Leaf });
cglue_impl_group!(Imp, FinGroup, { Leaf });

/// a group whose implementor does NOT enable one optional trait (casts to it fail)
#[cglue_trait]
pub trait Never { fn never(&self) -> u32; }
cglue_trait_group!(PartGroup, { Fin }, { Leaf, Never });
cglue_impl_group!(Imp, PartGroup, { Leaf });

/// borrowed children
#[cglue_trait]
pub trait Lender {
    #[wrap_with_obj_ref(Leaf)]
    type Lent: Leaf + 'static;
    fn lend(&self) -> &Self::Lent;
}
impl Lender for Imp { type Lent = Kid; fn lend(&self) -> &Kid { &self.kid } }
#[cglue_trait]
pub trait LenderMut {
    #[wrap_with_obj_mut(Leaf)]
    type LentM: Leaf + 'static;
    fn lend_mut(&mut self) -> &mut Self::LentM;
}
impl LenderMut for Imp { type LentM = Kid; fn lend_mut(&mut self) -> &mut Kid { &mut self.kid } }
#[cglue_trait]
pub trait Extra { fn extra(&self) -> u32; }
impl Extra for Kid { fn extra(&self) -> u32 { self.id ^ 3 } }
cglue_trait_group!(LeafPlain, { Leaf }, { Extra });
cglue_impl_group!(Kid, LeafPlain, { Extra });
#[cglue_trait]
pub trait LenderGroup {
    #[wrap_with_group_ref(LeafPlain)]
    type LentG: Leaf + 'static;
    fn lend_group(&self) -> &Self::LentG;
}
impl LenderGroup for Imp { type LentG = Kid; fn lend_group(&self) -> &Kid { &self.kid } }
#[cglue_trait]
pub trait LenderGroupMut {
    #[wrap_with_group_mut(LeafPlain)]
    type LentGM: Leaf + 'static;
    fn lend_group_mut(&mut self) -> &mut Self::LentGM;
}
impl LenderGroupMut for Imp { type LentGM = Kid; fn lend_group_mut(&mut self) -> &mut Kid { &mut self.kid } }

/// a context that is NOT reference counted: cloning deep-copies a heap cell, dropping frees it.
/// A derived object that merely aliases another object's context (instead of owning a clone) ends
/// up using freed memory.
pub static mut HEAP_CTX_LIVE: i32 = 0;
pub struct HeapCtx(pub Box<u32>);
impl Clone for HeapCtx { fn clone(&self) -> Self { unsafe { HEAP_CTX_LIVE += 1 }; HeapCtx(Box::new(*self.0)) } }
impl Drop for HeapCtx { fn drop(&mut self) { assert!(*self.0 == 0xC7C7, "C07 a context is intact when released"); unsafe { HEAP_CTX_LIVE -= 1 } } }
impl HeapCtx { pub fn new() -> Self { unsafe { HEAP_CTX_LIVE += 1 }; HeapCtx(Box::new(0xC7C7)) } }

/// a lent child that itself hands out owned grandchildren (so the child's own context is used)
#[cglue_trait]
pub trait Mid {
    #[wrap_with_obj(Leaf)]
    type Grand: Leaf + 'static;
    fn grand(&self, id: u32) -> Self::Grand;
}
impl Mid for Kid { type Grand = Kid; fn grand(&self, id: u32) -> Kid { Kid { id: id ^ self.id } } }
#[cglue_trait]
pub trait LenderMid {
    #[wrap_with_obj_ref(Mid)]
    type LentMid: Mid + 'static;
    fn lend_mid(&self) -> &Self::LentMid;
}
impl LenderMid for Imp { type LentMid = Kid; fn lend_mid(&self) -> &Kid { &self.kid } }
/// lifetime-generic trait lending a mutable child bounded by that lifetime
#[cglue_trait]
pub trait LenderLt<'a> {
    #[wrap_with_obj_mut(Leaf)]
    type LentLt: Leaf + 'a;
    fn lend_lt(&'a mut self) -> &'a mut Self::LentLt;
}
impl<'a> LenderLt<'a> for Imp { type LentLt = Kid; fn lend_lt(&mut self) -> &mut Kid { &mut self.kid } }

#[cfg(kani)]
mod verif;

//! Ghost state: Arc::strong_count of a retained std Arc behind the CArc context (`keep`), and the
//! payload's drop flag.  Per-operation contract = delta of the strong count.
use super::*;
use cglue::arc::CArc;
use cglue::trait_group::Opaquable;

fn setup(id: u32) -> (Arc<CtxPayload>, Imp, Ctx) {
    let keep = Arc::new(CtxPayload { magic: 0xC7 });
    let ctx: Ctx = CArc::from(keep.clone());
    let imp = Imp { id, watch: Arc::downgrade(&keep), kid: Kid { id: id ^ 9 } };
    assert!(Arc::strong_count(&keep) == 2);
    (keep, imp, ctx)
}
fn count(k: &Arc<CtxPayload>) -> usize { Arc::strong_count(k) }

//@ prefix=p_own kind=property clause=create +0 (the handle moves in); every owned child (object or group) holds its own clone (+1) and releases it when dropped (-1), in either drop order; calls/casts +0; after all derived objects are gone the count is back to its starting value and the payload is released exactly when the last handle goes
#[kani::proof]
#[kani::unwind(3)]
fn p_own_children() {
    let (id, cid): (u32, u32) = kani::any();
    let (keep, imp, ctx) = setup(id);
    let parent = trait_obj!((imp, ctx) as Parent);
    assert!(count(&keep) == 2, "C07 creating an object moves the context handle in (+0)");
    assert!(parent.ping() == id && count(&keep) == 2, "C07 plain calls leave the count unchanged");
    let group: bool = kani::any();
    if group {
        let child = parent.child_group(cid);
        assert!(count(&keep) == 3, "C07 a returned wrapped group holds its own clone of the context (+1)");
        let c2 = cast!(child impl Clone).unwrap();
        assert!(count(&keep) == 3, "C07 casts leave the count unchanged");
        let c3 = c2.clone();
        assert!(count(&keep) == 4, "C07 a clone holds its own clone of the context (+1)");
        if kani::any() { drop(parent); assert!(count(&keep) == 3 && c3.leaf() == cid, "C07 children keep the context alive after the parent is gone"); drop(c2); drop(c3); }
        else { drop(c3); drop(c2); assert!(count(&keep) == 2); drop(parent); }
    } else {
        let child = parent.child(cid);
        assert!(count(&keep) == 3, "C07 a returned wrapped object holds its own clone of the context (+1)");
        let child2 = parent.child(cid ^ 1);
        assert!(count(&keep) == 4, "C07 every returned child holds its own clone");
        if kani::any() { drop(parent); assert!(count(&keep) == 3 && child.leaf() == cid, "C07 children keep the context alive after the parent is gone"); drop(child); drop(child2); }
        else { drop(child2); assert!(count(&keep) == 3, "C07 dropping a child releases its clone (-1)"); drop(child); drop(parent); }
    }
    assert!(count(&keep) == 1, "C07 after all derived objects are dropped the count is back to its starting value");
    assert!(unsafe { CTX_DROPPED } == 0, "C07 the context payload is alive while a handle exists");
    drop(keep);
    assert!(unsafe { CTX_DROPPED } == 1, "C07 the context payload is released exactly when the last handle goes");
    kani::cover!(group, "group child");
    kani::cover!(!group, "object child");
}
//@ prefix=p_consume kind=property clause=by-value calls: the context is not released before control returned to the caller (inside the method a caller-side handle exists besides the callee's own); a consuming call returning a wrapped object is net +0; afterwards everything is released
#[kani::proof]
#[kani::unwind(3)]
fn p_consume_calls() {
    let id: u32 = kani::any();
    let (keep, imp, ctx) = setup(id);
    drop(keep); // no outside handle: the object holds the ONLY handle, as with a real plugin library
    let parent = trait_obj!((imp, ctx) as Parent);
    let wrapped: bool = kani::any();
    if wrapped {
        let child = parent.into_child();
        assert!(unsafe { COUNT_DURING_CONSUME } >= 2, "C07 during a by-value call a caller-side handle keeps the context alive besides the callee's own");
        assert!(unsafe { CTX_DROPPED } == 0, "C07 context alive: the returned child owns a handle");
        assert!(child.leaf() == id ^ 1);
        drop(child);
    } else {
        let r = parent.finish();
        assert!(r == id);
        assert!(unsafe { COUNT_DURING_CONSUME } >= 2, "C07 during a by-value call a caller-side handle keeps the context alive besides the callee's own");
    }
    assert!(unsafe { CTX_DROPPED } == 1, "C07 after the last derived object is gone the context is released, exactly once");
    kani::cover!(wrapped, "returns wrapped child");
    kani::cover!(!wrapped, "plain consuming call");
}
#[kani::proof]
#[kani::unwind(3)]
fn p_consume_group_object() {
    // the same through a GROUP object and through a successful cast of it
    let id: u32 = kani::any();
    let (keep, imp, ctx) = setup(id);
    let g = group_obj!((imp, ctx) as FinGroup);
    assert!(count(&keep) == 2 && g.fin_peek() == id);
    let casted: bool = kani::any();
    let r = if casted { let c = cast!(g impl Leaf).unwrap(); assert!(count(&keep) == 2); c.fin() } else { g.fin() };
    assert!(r == id ^ 0xF1);
    assert!(unsafe { COUNT_DURING_CONSUME } >= 2, "C07 during a by-value call a caller-side handle keeps the context alive besides the callee's own (group object)");
    assert!(count(&keep) == 1, "C07 after a consuming call on a group object its context handle is released: the count is back to its starting value");
    drop(keep);
    assert!(unsafe { CTX_DROPPED } == 1, "C07 and the payload is released with the last handle");
    kani::cover!(casted, "through a cast");
    kani::cover!(!casted, "group itself");
}
#[kani::proof]
#[kani::unwind(3)]
fn p_consume_failed_cast() {
    // a FAILED cast / into consumes the group: its context handle is released then and there
    let id: u32 = kani::any();
    let (keep, imp, ctx) = setup(id);
    let g = group_obj!((imp, ctx) as PartGroup);
    assert!(count(&keep) == 2);
    let which: u8 = kani::any();
    kani::assume(which < 3);
    match which {
        0 => assert!(cast!(g impl Never).is_none(), "absent trait"),
        1 => assert!(cast!(g impl Leaf + Never).is_none(), "partly absent"),
        _ => assert!(into!(g impl Never).is_none(), "absent trait"),
    }
    assert!(count(&keep) == 1, "C07 a failed cast destroys the consumed group and releases its context handle: the count is back to its starting value");
    drop(keep);
    assert!(unsafe { CTX_DROPPED } == 1);
    kani::cover!(which == 1, "partly absent");
}
#[kani::proof]
#[kani::unwind(3)]
fn p_consume_count() {
    let id: u32 = kani::any();
    let (keep, imp, ctx) = setup(id);
    let parent = trait_obj!((imp, ctx) as Parent);
    let child = parent.into_child();
    assert!(count(&keep) == 2, "C07 a consuming call returning a wrapped object is net +0 (the handle moves to the child)");
    drop(child);
    assert!(count(&keep) == 1, "C07 back to the starting value");
}
//@ prefix=p_last kind=property clause=the context stays alive until the last derived object is gone: when the last holder (object or group) is dropped, the instance's destructor still runs with the context alive
#[kani::proof]
#[kani::unwind(3)]
fn p_last_holder_drop_order() {
    let id: u32 = kani::any();
    let (keep, imp, ctx) = setup(id);
    drop(keep); // the object is the only holder, as with a real plugin library
    let group: bool = kani::any();
    if group { let g = group_obj!((imp, ctx) as LeafGroup); assert!(g.leaf() == id); drop(g); }
    else { let o = trait_obj!((imp, ctx) as Parent); assert!(o.ping() == id); drop(o); }
    assert!(unsafe { COUNT_DURING_INSTANCE_DROP } != usize::MAX, "the instance was destroyed");
    assert!(unsafe { COUNT_DURING_INSTANCE_DROP } >= 1, "C07 the context is still alive while the last object's instance is being destroyed");
    assert!(unsafe { CTX_DROPPED } == 1, "C07 and it is released once the object is gone");
    kani::cover!(group, "group");
    kani::cover!(!group, "object");
}
macro_rules! last_holder_is_derived { ($ctx:expr, $id:expr) => { {
    // the last holder is a DERIVED object that holds a CLONE of the context: an owned child / an
    // owned group child / a clone of a group; the payload is released exactly then
    let id = $id;
    let which: u8 = kani::any();
    kani::assume(which < 3);
    match which {
        0 => { let parent = trait_obj!($ctx as Parent); let c = parent.child(7); drop(parent); assert!(unsafe { CTX_DROPPED } == 0 && c.leaf() == 7, "C07 the child keeps the context alive"); drop(c); }
        1 => { let parent = trait_obj!($ctx as Parent); let c = parent.child_group(7); drop(parent); assert!(unsafe { CTX_DROPPED } == 0 && c.leaf() == 7, "C07 the group child keeps the context alive"); drop(c); }
        _ => { let g = group_obj!($ctx as LeafGroup); let c = cast!(g impl Clone).unwrap(); let c2 = c.clone(); drop(c); assert!(unsafe { CTX_DROPPED } == 0 && c2.leaf() == id, "C07 the clone keeps the context alive"); drop(c2); }
    }
    assert!(unsafe { CTX_DROPPED } == 1, "C07 the context is released exactly when the last derived object is gone (here: one holding a clone of the context)");
    kani::cover!(which == 0, "owned child last");
    kani::cover!(which == 2, "clone last");
} } }
#[kani::proof]
#[kani::unwind(3)]
fn p_last_holder_is_derived() {
    let id: u32 = kani::any();
    let (keep, imp, ctx) = setup(id);
    drop(keep);
    last_holder_is_derived!((imp, ctx), id);
}
#[kani::proof]
#[kani::unwind(3)]
fn p_last_holder_is_derived_erased_ctx() {
    // the usual plugin set-up: the context handle was type-erased BEFORE the object was built
    let id: u32 = kani::any();
    let (keep, imp, ctx) = setup(id);
    drop(keep);
    let ctx: CArc<cglue::trait_group::c_void> = ctx.into_opaque();
    last_holder_is_derived!((imp, ctx), id);
}
//@ prefix=p_clone kind=property clause=clone of an object with context +1, opaque conversion +0, drops -1 each
#[kani::proof]
#[kani::unwind(3)]
fn p_clone_obj() {
    let id: u32 = kani::any();
    let (keep, imp, ctx) = setup(id);
    let g = group_obj!((imp, ctx) as LeafGroup);
    assert!(count(&keep) == 2);
    let c = cast!(g impl Clone).unwrap();
    let c2 = c.clone();
    assert!(count(&keep) == 3, "C07 a clone holds its own clone of the context (+1)");
    let back = c.upcast();
    assert!(count(&keep) == 3, "C07 casting back leaves the count unchanged");
    drop(back);
    assert!(count(&keep) == 2 && c2.leaf() == id, "C07 the clone keeps the context alive");
    drop(c2);
    assert!(count(&keep) == 1, "C07 back to the starting value");
}
//@ prefix=p_lend kind=property clause=borrowed children (wrap_with_obj_ref / _mut / group_ref): after the parent and all references are gone the count is back to its starting value
#[kani::proof]
#[kani::unwind(3)]
fn p_lend_obj_ref() {
    let id: u32 = kani::any();
    let (keep, imp, ctx) = setup(id);
    let parent = trait_obj!((imp, ctx) as Lender);
    { let k = parent.lend(); assert!(k.leaf() == id ^ 9); }
    let twice: bool = kani::any();
    if twice { let k = parent.lend(); assert!(k.leaf() == id ^ 9); }
    drop(parent);
    assert!(count(&keep) == 1, "C07 ctx_count_restored: after the parent and its borrowed children are gone the count is back to its starting value");
}
#[kani::proof]
#[kani::unwind(3)]
fn p_lend_obj_mut() {
    let id: u32 = kani::any();
    let (keep, imp, ctx) = setup(id);
    let mut parent = trait_obj!((imp, ctx) as LenderMut);
    { let k = parent.lend_mut(); assert!(k.leaf() == id ^ 9); }
    drop(parent);
    assert!(count(&keep) == 1, "C07 ctx_count_restored: after the parent and its borrowed children are gone the count is back to its starting value");
}
#[kani::proof]
#[kani::unwind(3)]
fn p_lend_group_ref() {
    let id: u32 = kani::any();
    let (keep, imp, ctx) = setup(id);
    let parent = trait_obj!((imp, ctx) as LenderGroup);
    { let k = parent.lend_group(); assert!(k.leaf() == id ^ 9); }
    drop(parent);
    assert!(count(&keep) == 1, "C07 ctx_count_restored: after the parent and its borrowed children are gone the count is back to its starting value");
}
#[kani::proof]
#[kani::unwind(3)]
fn p_lend_group_mut() {
    let id: u32 = kani::any();
    let (keep, imp, ctx) = setup(id);
    let mut parent = trait_obj!((imp, ctx) as LenderGroupMut);
    { let k = parent.lend_group_mut(); assert!(k.leaf() == id ^ 9); assert!(as_ref!(k impl Extra).is_some(), "borrowed mutable group keeps its optional trait"); }
    drop(parent);
    assert!(count(&keep) == 1, "C07 ctx_count_restored: after the parent and its borrowed children are gone the count is back to its starting value");
}
//@ prefix=p_lendown kind=property clause=a borrowed child holds its OWN clone of the context: with a context that is not reference counted (clone = deep copy, drop = free), using the child's context (to create an owned grandchild) after the call returned touches only live memory, and the grandchild keeps working after the parent is gone
#[kani::proof]
#[kani::unwind(3)]
fn p_lendown_heap_ctx() {
    let id: u32 = kani::any();
    let keep = Arc::new(CtxPayload { magic: 0xC7 });
    let imp = Imp { id, watch: Arc::downgrade(&keep), kid: Kid { id: id ^ 9 } };
    let parent = trait_obj!((imp, HeapCtx::new()) as LenderMid);
    let g = {
        let mid = parent.lend_mid();
        mid.grand(5)              // clones the CHILD's context
    };
    assert!(g.leaf() == 5 ^ id ^ 9, "C07 grandchild obtained through a borrowed child works");
    drop(parent);
    assert!(g.leaf() == 5 ^ id ^ 9, "C07 grandchild outlives the parent");
    drop(g);
    assert!(unsafe { HEAP_CTX_LIVE } >= 0, "C07 no context was released twice");
    assert!(unsafe { HEAP_CTX_LIVE } == 0, "C07 ctx_count_restored: every context clone released once all derived objects are gone");
}
#[kani::proof]
#[kani::unwind(3)]
fn p_lendown_lifetime_mut() {
    // (a context without function pointers keeps CBMC's search small should an uninitialised
    // temporary ever be dropped)
    let id: u32 = kani::any();
    let keep = Arc::new(CtxPayload { magic: 0xC7 });
    let imp = Imp { id, watch: Arc::downgrade(&keep), kid: Kid { id: id ^ 9 } };
    let mut parent = trait_obj!((imp, HeapCtx::new()) as LenderLt);
    { let k = parent.lend_lt(); assert!(k.leaf() == id ^ 9, "C07 lifetime-bounded mutable borrowed child works on the first call"); }
    assert!(unsafe { HEAP_CTX_LIVE } >= 1, "C07 the parent still holds its context");
    drop(parent);
    assert!(unsafe { HEAP_CTX_LIVE } >= 0, "C07 no context was released twice");
    assert!(unsafe { HEAP_CTX_LIVE } == 0, "C07 ctx_count_restored: every context clone released once all derived objects are gone");
}
//@ prefix=canary kind=canary clause=vacuity canary
#[kani::proof]
#[kani::unwind(3)]
fn canary_c07() {
    let (keep, imp, ctx) = setup(1);
    let parent = trait_obj!((imp, ctx) as Parent);
    let child = parent.child(2);
    assert!(count(&keep) == 2, "canary: deliberately false (child holds a clone)");
}

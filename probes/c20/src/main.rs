//! C20 probe — BOUNDED NATIVE STAND-IN, not a proof.
//! The clause "Valid when the C-visible interfaces are identical, never Valid when they differ" is a
//! contract on abi_stable's external layout checker composed with #[derive(StableAbi)] on generated
//! structs; neither Verus nor Kani reaches it (the checker's body crashes Kani 0.68's compiler).
//! This program executes the REAL compare_layouts on the real layout descriptions of a base
//! definition and of single-edit variants of it (each module is one "build" of the interface).
#![allow(clippy::all, unused)]
use abi_stable::StableAbi;
use cglue::trait_group::{compare_layouts, VerifyLayout};

macro_rules! build {
    ($m:ident, { $($body:tt)* }) => {
        pub mod $m {
            use cglue::prelude::v1::*;
            $($body)*
        }
    };
}
// ---- single-trait interface ---------------------------------------------------------------------
build!(base, {
    #[cglue_trait]
    pub trait Iface {
        fn alpha(&self, x: u32) -> u32;
        fn pick<'a>(&'a self, s: &'a [u8], idx: u32) -> &'a [u8];
        fn gamma(&mut self, v: Option<u32>) -> Result<u32, u8>;
        #[int_result]
        fn delta(&self, v: u64) -> Result<u64, ()>;
    }
});
build!(same, {
    #[cglue_trait]
    pub trait Iface {
        fn alpha(&self, x: u32) -> u32;
        fn pick<'a>(&'a self, s: &'a [u8], idx: u32) -> &'a [u8];
        fn gamma(&mut self, v: Option<u32>) -> Result<u32, u8>;
        #[int_result]
        fn delta(&self, v: u64) -> Result<u64, ()>;
    }
});
build!(add_method, {
    #[cglue_trait]
    pub trait Iface {
        fn alpha(&self, x: u32) -> u32;
        fn pick<'a>(&'a self, s: &'a [u8], idx: u32) -> &'a [u8];
        fn gamma(&mut self, v: Option<u32>) -> Result<u32, u8>;
        #[int_result]
        fn delta(&self, v: u64) -> Result<u64, ()>;
        fn extra(&self);
    }
});
build!(remove_method, {
    #[cglue_trait]
    pub trait Iface {
        fn alpha(&self, x: u32) -> u32;
        fn pick<'a>(&'a self, s: &'a [u8], idx: u32) -> &'a [u8];
        #[int_result]
        fn delta(&self, v: u64) -> Result<u64, ()>;
    }
});
build!(rename_method, {
    #[cglue_trait]
    pub trait Iface {
        fn alpha2(&self, x: u32) -> u32;
        fn pick<'a>(&'a self, s: &'a [u8], idx: u32) -> &'a [u8];
        fn gamma(&mut self, v: Option<u32>) -> Result<u32, u8>;
        #[int_result]
        fn delta(&self, v: u64) -> Result<u64, ()>;
    }
});
build!(reorder, {
    #[cglue_trait]
    pub trait Iface {
        fn pick<'a>(&'a self, s: &'a [u8], idx: u32) -> &'a [u8];
        fn alpha(&self, x: u32) -> u32;
        fn gamma(&mut self, v: Option<u32>) -> Result<u32, u8>;
        #[int_result]
        fn delta(&self, v: u64) -> Result<u64, ()>;
    }
});
build!(arg_type_plain, {
    #[cglue_trait]
    pub trait Iface {
        fn alpha(&self, x: u64) -> u32;
        fn pick<'a>(&'a self, s: &'a [u8], idx: u32) -> &'a [u8];
        fn gamma(&mut self, v: Option<u32>) -> Result<u32, u8>;
        #[int_result]
        fn delta(&self, v: u64) -> Result<u64, ()>;
    }
});
build!(arg_type_lifetimed, {
    #[cglue_trait]
    pub trait Iface {
        fn alpha(&self, x: u32) -> u32;
        fn pick<'a>(&'a self, s: &'a [u8], idx: u64) -> &'a [u8];
        fn gamma(&mut self, v: Option<u32>) -> Result<u32, u8>;
        #[int_result]
        fn delta(&self, v: u64) -> Result<u64, ()>;
    }
});
build!(ret_type_lifetimed, {
    #[cglue_trait]
    pub trait Iface {
        fn alpha(&self, x: u32) -> u32;
        fn pick<'a>(&'a self, s: &'a [u8], idx: u32) -> &'a [u16];
        fn gamma(&mut self, v: Option<u32>) -> Result<u32, u8>;
        #[int_result]
        fn delta(&self, v: u64) -> Result<u64, ()>;
    }
});
build!(ret_type_wrapped, {
    #[cglue_trait]
    pub trait Iface {
        fn alpha(&self, x: u32) -> u32;
        fn pick<'a>(&'a self, s: &'a [u8], idx: u32) -> &'a [u8];
        fn gamma(&mut self, v: Option<u32>) -> Result<u64, u8>;
        #[int_result]
        fn delta(&self, v: u64) -> Result<u64, ()>;
    }
});
build!(err_type_same_size, {
    #[cglue_trait]
    pub trait Iface {
        fn alpha(&self, x: u32) -> u32;
        fn pick<'a>(&'a self, s: &'a [u8], idx: u32) -> &'a [u8];
        fn gamma(&mut self, v: Option<u32>) -> Result<u32, i8>;
        #[int_result]
        fn delta(&self, v: u64) -> Result<u64, ()>;
    }
});
build!(opt_type_same_size, {
    #[cglue_trait]
    pub trait Iface {
        fn alpha(&self, x: u32) -> u32;
        fn pick<'a>(&'a self, s: &'a [u8], idx: u32) -> &'a [u8];
        fn gamma(&mut self, v: Option<i32>) -> Result<u32, u8>;
        #[int_result]
        fn delta(&self, v: u64) -> Result<u64, ()>;
    }
});
build!(ok_type_same_size, {
    #[cglue_trait]
    pub trait Iface {
        fn alpha(&self, x: u32) -> u32;
        fn pick<'a>(&'a self, s: &'a [u8], idx: u32) -> &'a [u8];
        fn gamma(&mut self, v: Option<u32>) -> Result<i32, u8>;
        #[int_result]
        fn delta(&self, v: u64) -> Result<u64, ()>;
    }
});
build!(arg_type_wrapped, {
    #[cglue_trait]
    pub trait Iface {
        fn alpha(&self, x: u32) -> u32;
        fn pick<'a>(&'a self, s: &'a [u8], idx: u32) -> &'a [u8];
        fn gamma(&mut self, v: Option<u16>) -> Result<u32, u8>;
        #[int_result]
        fn delta(&self, v: u64) -> Result<u64, ()>;
    }
});
build!(receiver_plain, {
    #[cglue_trait]
    pub trait Iface {
        fn alpha(&mut self, x: u32) -> u32;
        fn pick<'a>(&'a self, s: &'a [u8], idx: u32) -> &'a [u8];
        fn gamma(&mut self, v: Option<u32>) -> Result<u32, u8>;
        #[int_result]
        fn delta(&self, v: u64) -> Result<u64, ()>;
    }
});
build!(receiver_lifetimed, {
    #[cglue_trait]
    pub trait Iface {
        fn alpha(&self, x: u32) -> u32;
        fn pick<'a>(&'a mut self, s: &'a [u8], idx: u32) -> &'a [u8];
        fn gamma(&mut self, v: Option<u32>) -> Result<u32, u8>;
        #[int_result]
        fn delta(&self, v: u64) -> Result<u64, ()>;
    }
});
build!(toggle_int_result, {
    #[cglue_trait]
    pub trait Iface {
        fn alpha(&self, x: u32) -> u32;
        fn pick<'a>(&'a self, s: &'a [u8], idx: u32) -> &'a [u8];
        fn gamma(&mut self, v: Option<u32>) -> Result<u32, u8>;
        fn delta(&self, v: u64) -> Result<u64, ()>;
    }
});
// ---- wrapper types whose ELEMENT type changes ----------------------------------------------------
build!(wbase, {
    use cglue::callback::OpaqueCallback; use cglue::iter::CIterator; use cglue::vec::CVec; use cglue::arc::CArc;
    #[cglue_trait]
    pub trait W {
        fn cb(&self, cb: OpaqueCallback<u32>);
        fn it(&self, it: CIterator<u32>);
        fn sl(&self, s: &[u8]);
        fn vc(&self, v: CVec<u32>);
        fn ar(&self, a: CArc<u32>);
    }
});
build!(wsame, {
    use cglue::callback::OpaqueCallback; use cglue::iter::CIterator; use cglue::vec::CVec; use cglue::arc::CArc;
    #[cglue_trait]
    pub trait W {
        fn cb(&self, cb: OpaqueCallback<u32>);
        fn it(&self, it: CIterator<u32>);
        fn sl(&self, s: &[u8]);
        fn vc(&self, v: CVec<u32>);
        fn ar(&self, a: CArc<u32>);
    }
});
build!(w_callback_elem, {
    use cglue::callback::OpaqueCallback; use cglue::iter::CIterator; use cglue::vec::CVec; use cglue::arc::CArc;
    #[cglue_trait]
    pub trait W {
        fn cb(&self, cb: OpaqueCallback<u64>);
        fn it(&self, it: CIterator<u32>);
        fn sl(&self, s: &[u8]);
        fn vc(&self, v: CVec<u32>);
        fn ar(&self, a: CArc<u32>);
    }
});
build!(w_iter_elem, {
    use cglue::callback::OpaqueCallback; use cglue::iter::CIterator; use cglue::vec::CVec; use cglue::arc::CArc;
    #[cglue_trait]
    pub trait W {
        fn cb(&self, cb: OpaqueCallback<u32>);
        fn it(&self, it: CIterator<u64>);
        fn sl(&self, s: &[u8]);
        fn vc(&self, v: CVec<u32>);
        fn ar(&self, a: CArc<u32>);
    }
});
build!(w_slice_elem, {
    use cglue::callback::OpaqueCallback; use cglue::iter::CIterator; use cglue::vec::CVec; use cglue::arc::CArc;
    #[cglue_trait]
    pub trait W {
        fn cb(&self, cb: OpaqueCallback<u32>);
        fn it(&self, it: CIterator<u32>);
        fn sl(&self, s: &[u16]);
        fn vc(&self, v: CVec<u32>);
        fn ar(&self, a: CArc<u32>);
    }
});
build!(w_vec_elem, {
    use cglue::callback::OpaqueCallback; use cglue::iter::CIterator; use cglue::vec::CVec; use cglue::arc::CArc;
    #[cglue_trait]
    pub trait W {
        fn cb(&self, cb: OpaqueCallback<u32>);
        fn it(&self, it: CIterator<u32>);
        fn sl(&self, s: &[u8]);
        fn vc(&self, v: CVec<u64>);
        fn ar(&self, a: CArc<u32>);
    }
});
build!(w_arc_elem, {
    use cglue::callback::OpaqueCallback; use cglue::iter::CIterator; use cglue::vec::CVec; use cglue::arc::CArc;
    #[cglue_trait]
    pub trait W {
        fn cb(&self, cb: OpaqueCallback<u32>);
        fn it(&self, it: CIterator<u32>);
        fn sl(&self, s: &[u8]);
        fn vc(&self, v: CVec<u32>);
        fn ar(&self, a: CArc<u64>);
    }
});
// ---- groups -------------------------------------------------------------------------------------
build!(gbase, {
    #[cglue_trait] pub trait Ma { fn ma(&self) -> u32; }
    #[cglue_trait] pub trait Mb { fn mb(&self) -> u32; }
    #[cglue_trait] pub trait Oa { fn oa(&self) -> u32; }
    #[cglue_trait] pub trait Ob { fn ob(&self) -> u32; }
    cglue_trait_group!(Grp, { Mb, Ma }, { Ob, Oa });
});
build!(gsame, {
    #[cglue_trait] pub trait Ma { fn ma(&self) -> u32; }
    #[cglue_trait] pub trait Mb { fn mb(&self) -> u32; }
    #[cglue_trait] pub trait Oa { fn oa(&self) -> u32; }
    #[cglue_trait] pub trait Ob { fn ob(&self) -> u32; }
    cglue_trait_group!(Grp, { Mb, Ma }, { Ob, Oa });
});
build!(g_remove_optional, {
    #[cglue_trait] pub trait Ma { fn ma(&self) -> u32; }
    #[cglue_trait] pub trait Mb { fn mb(&self) -> u32; }
    #[cglue_trait] pub trait Oa { fn oa(&self) -> u32; }
    #[cglue_trait] pub trait Ob { fn ob(&self) -> u32; }
    cglue_trait_group!(Grp, { Mb, Ma }, { Oa });
});
build!(g_add_optional, {
    #[cglue_trait] pub trait Ma { fn ma(&self) -> u32; }
    #[cglue_trait] pub trait Mb { fn mb(&self) -> u32; }
    #[cglue_trait] pub trait Oa { fn oa(&self) -> u32; }
    #[cglue_trait] pub trait Ob { fn ob(&self) -> u32; }
    #[cglue_trait] pub trait Oc { fn oc(&self) -> u32; }
    cglue_trait_group!(Grp, { Mb, Ma }, { Ob, Oa, Oc });
});
build!(g_optional_to_mandatory, {
    #[cglue_trait] pub trait Ma { fn ma(&self) -> u32; }
    #[cglue_trait] pub trait Mb { fn mb(&self) -> u32; }
    #[cglue_trait] pub trait Oa { fn oa(&self) -> u32; }
    #[cglue_trait] pub trait Ob { fn ob(&self) -> u32; }
    cglue_trait_group!(Grp, { Mb, Ma, Oa }, { Ob });
});
build!(g_member_method_changed, {
    #[cglue_trait] pub trait Ma { fn ma(&self) -> u32; }
    #[cglue_trait] pub trait Mb { fn mb(&self) -> u32; }
    #[cglue_trait] pub trait Oa { fn oa(&self) -> u64; }
    #[cglue_trait] pub trait Ob { fn ob(&self) -> u32; }
    cglue_trait_group!(Grp, { Mb, Ma }, { Ob, Oa });
});

// ---- C-side-only (#[vtbl_only]) and `where Self: Sized` provided methods ------------------------------
build!(vbase, {
    #[cglue_trait]
    pub trait Iface {
        fn alpha(&self, x: u32) -> u32;
        #[vtbl_only]
        fn beta(&self, x: u32) -> u32 { x }
        fn gamma(&self, x: u32) -> u32;
        fn sized(&self, k: u32) -> u32 where Self: Sized { k }
    }
});
build!(vsame, {
    #[cglue_trait]
    pub trait Iface {
        fn alpha(&self, x: u32) -> u32;
        #[vtbl_only]
        fn beta(&self, x: u32) -> u32 { x }
        fn gamma(&self, x: u32) -> u32;
        fn sized(&self, k: u32) -> u32 where Self: Sized { k }
    }
});
build!(v_vtbl_only_moved, {
    #[cglue_trait]
    pub trait Iface {
        #[vtbl_only]
        fn beta(&self, x: u32) -> u32 { x }
        fn alpha(&self, x: u32) -> u32;
        fn gamma(&self, x: u32) -> u32;
        fn sized(&self, k: u32) -> u32 where Self: Sized { k }
    }
});
build!(v_sized_removed, {
    #[cglue_trait]
    pub trait Iface {
        fn alpha(&self, x: u32) -> u32;
        #[vtbl_only]
        fn beta(&self, x: u32) -> u32 { x }
        fn gamma(&self, x: u32) -> u32;
    }
});
build!(v_sized_retyped, {
    #[cglue_trait]
    pub trait Iface {
        fn alpha(&self, x: u32) -> u32;
        #[vtbl_only]
        fn beta(&self, x: u32) -> u32 { x }
        fn gamma(&self, x: u32) -> u32;
        fn sized(&self, k: u64) -> u32 where Self: Sized { k as u32 }
    }
});
build!(v_vtbl_only_retyped, {
    #[cglue_trait]
    pub trait Iface {
        fn alpha(&self, x: u32) -> u32;
        #[vtbl_only]
        fn beta(&self, x: u64) -> u32 { x as u32 }
        fn gamma(&self, x: u32) -> u32;
        fn sized(&self, k: u32) -> u32 where Self: Sized { k }
    }
});
// ---- pinned receivers written with a `mut` binding ---------------------------------------------------
build!(pbase, {
    use core::pin::Pin;
    #[cglue_trait]
    pub trait Iface {
        fn alpha(&self, x: u32) -> u32;
        fn pinned(mut self: Pin<&mut Self>, k: u32) -> u32 { let _ = &mut self; k }
        fn gamma(&self, x: u32) -> u32;
    }
});
build!(psame, {
    use core::pin::Pin;
    #[cglue_trait]
    pub trait Iface {
        fn alpha(&self, x: u32) -> u32;
        fn pinned(mut self: Pin<&mut Self>, k: u32) -> u32 { let _ = &mut self; k }
        fn gamma(&self, x: u32) -> u32;
    }
});
build!(p_pinned_removed, {
    use core::pin::Pin;
    #[cglue_trait]
    pub trait Iface {
        fn alpha(&self, x: u32) -> u32;
        fn gamma(&self, x: u32) -> u32;
    }
});
build!(p_pinned_retyped, {
    use core::pin::Pin;
    #[cglue_trait]
    pub trait Iface {
        fn alpha(&self, x: u32) -> u32;
        fn pinned(mut self: Pin<&mut Self>, k: u64) -> u32 { let _ = &mut self; k as u32 }
        fn gamma(&self, x: u32) -> u32;
    }
});
build!(p_pinned_not_mut, {
    use core::pin::Pin;
    #[cglue_trait]
    pub trait Iface {
        fn alpha(&self, x: u32) -> u32;
        fn pinned(self: Pin<&mut Self>, k: u32) -> u32 { k }
        fn gamma(&self, x: u32) -> u32;
    }
});
// ---- external traits (#[cglue_trait_ext] objects, groups with an `ext::` member) -------------------
// (written out in full: a macro_rules wrapper would give the generated `self` another hygiene context)
pub mod xbase {
    pub mod foreign { pub trait Shape { fn area(&self, scale: u32) -> u32; fn grow(&mut self, by: u32); } }
    pub mod glue {
        use super::foreign::Shape;
        use cglue::*;
        #[cglue_trait_ext]
        pub trait Shape { fn area(&self, scale: u32) -> u32; fn grow(&mut self, by: u32); }
        #[cglue_trait]
        pub trait Own { fn own(&self) -> u32; }
        cglue_trait_group!(XG, Own, { ext::Shape }, { pub trait Shape { fn area(&self, scale: u32) -> u32; fn grow(&mut self, by: u32); } });
    }
}
pub mod xsame {
    pub mod foreign { pub trait Shape { fn area(&self, scale: u32) -> u32; fn grow(&mut self, by: u32); } }
    pub mod glue {
        use super::foreign::Shape;
        use cglue::*;
        #[cglue_trait_ext]
        pub trait Shape { fn area(&self, scale: u32) -> u32; fn grow(&mut self, by: u32); }
        #[cglue_trait]
        pub trait Own { fn own(&self) -> u32; }
        cglue_trait_group!(XG, Own, { ext::Shape }, { pub trait Shape { fn area(&self, scale: u32) -> u32; fn grow(&mut self, by: u32); } });
    }
}
pub mod x_arg {
    pub mod foreign { pub trait Shape { fn area(&self, scale: u64) -> u32; fn grow(&mut self, by: u32); } }
    pub mod glue {
        use super::foreign::Shape;
        use cglue::*;
        #[cglue_trait_ext]
        pub trait Shape { fn area(&self, scale: u64) -> u32; fn grow(&mut self, by: u32); }
        #[cglue_trait]
        pub trait Own { fn own(&self) -> u32; }
        cglue_trait_group!(XG, Own, { ext::Shape }, { pub trait Shape { fn area(&self, scale: u64) -> u32; fn grow(&mut self, by: u32); } });
    }
}
pub mod x_ret {
    pub mod foreign { pub trait Shape { fn area(&self, scale: u32) -> u64; fn grow(&mut self, by: u32); } }
    pub mod glue {
        use super::foreign::Shape;
        use cglue::*;
        #[cglue_trait_ext]
        pub trait Shape { fn area(&self, scale: u32) -> u64; fn grow(&mut self, by: u32); }
        #[cglue_trait]
        pub trait Own { fn own(&self) -> u32; }
        cglue_trait_group!(XG, Own, { ext::Shape }, { pub trait Shape { fn area(&self, scale: u32) -> u64; fn grow(&mut self, by: u32); } });
    }
}
pub mod x_recv {
    pub mod foreign { pub trait Shape { fn area(&mut self, scale: u32) -> u32; fn grow(&mut self, by: u32); } }
    pub mod glue {
        use super::foreign::Shape;
        use cglue::*;
        #[cglue_trait_ext]
        pub trait Shape { fn area(&mut self, scale: u32) -> u32; fn grow(&mut self, by: u32); }
        #[cglue_trait]
        pub trait Own { fn own(&self) -> u32; }
        cglue_trait_group!(XG, Own, { ext::Shape }, { pub trait Shape { fn area(&mut self, scale: u32) -> u32; fn grow(&mut self, by: u32); } });
    }
}
pub mod x_rename {
    pub mod foreign { pub trait Shape { fn area2(&self, scale: u32) -> u32; fn grow(&mut self, by: u32); } }
    pub mod glue {
        use super::foreign::Shape;
        use cglue::*;
        #[cglue_trait_ext]
        pub trait Shape { fn area2(&self, scale: u32) -> u32; fn grow(&mut self, by: u32); }
        #[cglue_trait]
        pub trait Own { fn own(&self) -> u32; }
        cglue_trait_group!(XG, Own, { ext::Shape }, { pub trait Shape { fn area2(&self, scale: u32) -> u32; fn grow(&mut self, by: u32); } });
    }
}
pub mod x_remove {
    pub mod foreign { pub trait Shape { fn area(&self, scale: u32) -> u32; } }
    pub mod glue {
        use super::foreign::Shape;
        use cglue::*;
        #[cglue_trait_ext]
        pub trait Shape { fn area(&self, scale: u32) -> u32; }
        #[cglue_trait]
        pub trait Own { fn own(&self) -> u32; }
        cglue_trait_group!(XG, Own, { ext::Shape }, { pub trait Shape { fn area(&self, scale: u32) -> u32; } });
    }
}
pub mod x_reorder {
    pub mod foreign { pub trait Shape { fn grow(&mut self, by: u32); fn area(&self, scale: u32) -> u32; } }
    pub mod glue {
        use super::foreign::Shape;
        use cglue::*;
        #[cglue_trait_ext]
        pub trait Shape { fn grow(&mut self, by: u32); fn area(&self, scale: u32) -> u32; }
        #[cglue_trait]
        pub trait Own { fn own(&self) -> u32; }
        cglue_trait_group!(XG, Own, { ext::Shape }, { pub trait Shape { fn grow(&mut self, by: u32); fn area(&self, scale: u32) -> u32; } });
    }
}
// ---- generic traits and associated-type bindings inside groups -------------------------------------
build!(sbase, {
    #[cglue_trait]
    pub trait Store<T> { fn put(&mut self, key: u32, val: T) -> u32; fn len(&self) -> u32; }
    #[cglue_trait]
    pub trait Sink { type Item; fn push(&mut self, item: Self::Item, prio: u32); }
    #[cglue_trait]
    pub trait Plain { fn id(&self, x: u32) -> u32; }
    cglue_trait_group!(Kv<T>, Store<T>, { Plain });
    cglue_trait_group!(Out, Sink<Item = u32>, { Plain });
    cglue_trait_group!(OptKv<T>, Plain, { Store<T> });
});
build!(ssame, {
    #[cglue_trait]
    pub trait Store<T> { fn put(&mut self, key: u32, val: T) -> u32; fn len(&self) -> u32; }
    #[cglue_trait]
    pub trait Sink { type Item; fn push(&mut self, item: Self::Item, prio: u32); }
    #[cglue_trait]
    pub trait Plain { fn id(&self, x: u32) -> u32; }
    cglue_trait_group!(Kv<T>, Store<T>, { Plain });
    cglue_trait_group!(Out, Sink<Item = u32>, { Plain });
    cglue_trait_group!(OptKv<T>, Plain, { Store<T> });
});
build!(s_arg, {
    #[cglue_trait]
    pub trait Store<T> { fn put(&mut self, key: u64, val: T) -> u32; fn len(&self) -> u32; }
    #[cglue_trait]
    pub trait Sink { type Item; fn push(&mut self, item: Self::Item, prio: u64); }
    #[cglue_trait]
    pub trait Plain { fn id(&self, x: u32) -> u32; }
    cglue_trait_group!(Kv<T>, Store<T>, { Plain });
    cglue_trait_group!(Out, Sink<Item = u32>, { Plain });
    cglue_trait_group!(OptKv<T>, Plain, { Store<T> });
});
build!(s_ret, {
    #[cglue_trait]
    pub trait Store<T> { fn put(&mut self, key: u32, val: T) -> u64; fn len(&self) -> u32; }
    #[cglue_trait]
    pub trait Sink { type Item; fn push(&mut self, item: Self::Item, prio: u32) -> u32; }
    #[cglue_trait]
    pub trait Plain { fn id(&self, x: u32) -> u32; }
    cglue_trait_group!(Kv<T>, Store<T>, { Plain });
    cglue_trait_group!(Out, Sink<Item = u32>, { Plain });
    cglue_trait_group!(OptKv<T>, Plain, { Store<T> });
});
build!(s_rename, {
    #[cglue_trait]
    pub trait Store<T> { fn put2(&mut self, key: u32, val: T) -> u32; fn len(&self) -> u32; }
    #[cglue_trait]
    pub trait Sink { type Item; fn push2(&mut self, item: Self::Item, prio: u32); }
    #[cglue_trait]
    pub trait Plain { fn id(&self, x: u32) -> u32; }
    cglue_trait_group!(Kv<T>, Store<T>, { Plain });
    cglue_trait_group!(Out, Sink<Item = u32>, { Plain });
    cglue_trait_group!(OptKv<T>, Plain, { Store<T> });
});
build!(s_add, {
    #[cglue_trait]
    pub trait Store<T> { fn put(&mut self, key: u32, val: T) -> u32; fn len(&self) -> u32; fn more(&self); }
    #[cglue_trait]
    pub trait Sink { type Item; fn push(&mut self, item: Self::Item, prio: u32); fn more(&self); }
    #[cglue_trait]
    pub trait Plain { fn id(&self, x: u32) -> u32; }
    cglue_trait_group!(Kv<T>, Store<T>, { Plain });
    cglue_trait_group!(Out, Sink<Item = u32>, { Plain });
    cglue_trait_group!(OptKv<T>, Plain, { Store<T> });
});
build!(s_recv, {
    #[cglue_trait]
    pub trait Store<T> { fn put(&self, key: u32, val: T) -> u32; fn len(&self) -> u32; }
    #[cglue_trait]
    pub trait Sink { type Item; fn push(&self, item: Self::Item, prio: u32); }
    #[cglue_trait]
    pub trait Plain { fn id(&self, x: u32) -> u32; }
    cglue_trait_group!(Kv<T>, Store<T>, { Plain });
    cglue_trait_group!(Out, Sink<Item = u32>, { Plain });
    cglue_trait_group!(OptKv<T>, Plain, { Store<T> });
});

fn case(name: &str, expect_valid: bool, a: &'static abi_stable::type_layout::TypeLayout, b: &'static abi_stable::type_layout::TypeLayout) {
    for (dir, x, y) in [("ab", a, b), ("ba", b, a)] {
        let v = compare_layouts(Some(x), Some(y));
        let ok = if expect_valid { v == VerifyLayout::Valid } else { v != VerifyLayout::Valid };
        println!("CASE {}_{} expect={} got={:?} {}", name, dir, if expect_valid { "Valid" } else { "notValid" }, v, if ok { "ok" } else { "FAIL" });
    }
}
macro_rules! iface { ($m:ident) => { <$m::IfaceBox<'static> as StableAbi>::LAYOUT } }
macro_rules! grp { ($m:ident) => { <$m::GrpBox<'static> as StableAbi>::LAYOUT } }

fn main() {
    case("identical_trait", true, iface!(base), iface!(same));
    case("add_method", false, iface!(base), iface!(add_method));
    case("remove_method", false, iface!(base), iface!(remove_method));
    case("rename_method", false, iface!(base), iface!(rename_method));
    case("reorder_methods", false, iface!(base), iface!(reorder));
    case("arg_type_plain", false, iface!(base), iface!(arg_type_plain));
    case("arg_type_lifetimed", false, iface!(base), iface!(arg_type_lifetimed));
    case("ret_type_lifetimed", false, iface!(base), iface!(ret_type_lifetimed));
    case("ret_type_wrapped", false, iface!(base), iface!(ret_type_wrapped));
    case("arg_type_wrapped", false, iface!(base), iface!(arg_type_wrapped));
    case("err_type_same_size", false, iface!(base), iface!(err_type_same_size));
    case("ok_type_same_size", false, iface!(base), iface!(ok_type_same_size));
    case("opt_type_same_size", false, iface!(base), iface!(opt_type_same_size));
    case("receiver_plain", false, iface!(base), iface!(receiver_plain));
    case("receiver_lifetimed", false, iface!(base), iface!(receiver_lifetimed));
    case("toggle_int_result", false, iface!(base), iface!(toggle_int_result));
    macro_rules! wl { ($m:ident) => { <$m::WBox<'static> as StableAbi>::LAYOUT } }
    case("identical_wrappers", true, wl!(wbase), wl!(wsame));
    case("callback_element_type", false, wl!(wbase), wl!(w_callback_elem));
    case("iterator_element_type", false, wl!(wbase), wl!(w_iter_elem));
    case("slice_element_type", false, wl!(wbase), wl!(w_slice_elem));
    case("vec_element_type", false, wl!(wbase), wl!(w_vec_elem));
    case("arc_element_type", false, wl!(wbase), wl!(w_arc_elem));
    case("identical_group", true, grp!(gbase), grp!(gsame));
    case("group_remove_optional", false, grp!(gbase), grp!(g_remove_optional));
    case("group_add_optional", false, grp!(gbase), grp!(g_add_optional));
    case("group_optional_to_mandatory", false, grp!(gbase), grp!(g_optional_to_mandatory));
    case("group_member_method_changed", false, grp!(gbase), grp!(g_member_method_changed));
    case("identical_vtbl_only_and_sized", true, iface!(vbase), iface!(vsame));
    case("vtbl_only_method_moved", false, iface!(vbase), iface!(v_vtbl_only_moved));
    case("vtbl_only_method_retyped", false, iface!(vbase), iface!(v_vtbl_only_retyped));
    case("where_sized_method_removed", false, iface!(vbase), iface!(v_sized_removed));
    case("where_sized_method_retyped", false, iface!(vbase), iface!(v_sized_retyped));
    case("identical_pinned_mut_binding", true, iface!(pbase), iface!(psame));
    case("pinned_mut_binding_same_interface", true, iface!(pbase), iface!(p_pinned_not_mut));
    case("pinned_method_removed", false, iface!(pbase), iface!(p_pinned_removed));
    case("pinned_method_retyped", false, iface!(pbase), iface!(p_pinned_retyped));
    macro_rules! xo { ($m:ident) => { <$m::glue::ShapeBox<'static> as StableAbi>::LAYOUT } }
    macro_rules! xg { ($m:ident) => { <$m::glue::XGBox<'static> as StableAbi>::LAYOUT } }
    case("ext_identical_object", true, xo!(xbase), xo!(xsame));
    case("ext_identical_group", true, xg!(xbase), xg!(xsame));
    case("ext_object_arg_type", false, xo!(xbase), xo!(x_arg));
    case("ext_object_ret_type", false, xo!(xbase), xo!(x_ret));
    case("ext_object_receiver", false, xo!(xbase), xo!(x_recv));
    case("ext_object_rename", false, xo!(xbase), xo!(x_rename));
    case("ext_object_remove", false, xo!(xbase), xo!(x_remove));
    case("ext_object_reorder", false, xo!(xbase), xo!(x_reorder));
    case("ext_group_arg_type", false, xg!(xbase), xg!(x_arg));
    case("ext_group_ret_type", false, xg!(xbase), xg!(x_ret));
    case("ext_group_receiver", false, xg!(xbase), xg!(x_recv));
    case("ext_group_rename", false, xg!(xbase), xg!(x_rename));
    case("ext_group_remove", false, xg!(xbase), xg!(x_remove));
    macro_rules! kv { ($m:ident) => { <$m::KvBox<'static, u32> as StableAbi>::LAYOUT } }
    macro_rules! okv { ($m:ident) => { <$m::OptKvBox<'static, u32> as StableAbi>::LAYOUT } }
    macro_rules! st { ($m:ident) => { <$m::StoreBox<'static, u32> as StableAbi>::LAYOUT } }
    macro_rules! out { ($m:ident) => { <$m::OutBox<'static> as StableAbi>::LAYOUT } }
    case("generic_identical_group", true, kv!(sbase), kv!(ssame));
    case("generic_identical_opt_group", true, okv!(sbase), okv!(ssame));
    case("generic_identical_object", true, st!(sbase), st!(ssame));
    case("assoc_identical_group", true, out!(sbase), out!(ssame));
    case("generic_group_other_param", false, kv!(sbase), <sbase::KvBox<'static, u64> as StableAbi>::LAYOUT);
    case("generic_group_arg_type", false, kv!(sbase), kv!(s_arg));
    case("generic_group_ret_type", false, kv!(sbase), kv!(s_ret));
    case("generic_group_rename", false, kv!(sbase), kv!(s_rename));
    case("generic_group_add", false, kv!(sbase), kv!(s_add));
    case("generic_group_receiver", false, kv!(sbase), kv!(s_recv));
    case("generic_opt_group_arg_type", false, okv!(sbase), okv!(s_arg));
    case("generic_opt_group_rename", false, okv!(sbase), okv!(s_rename));
    case("generic_object_arg_type", false, st!(sbase), st!(s_arg));
    case("assoc_group_arg_type", false, out!(sbase), out!(s_arg));
    case("assoc_group_ret_type", false, out!(sbase), out!(s_ret));
    case("assoc_group_rename", false, out!(sbase), out!(s_rename));
    case("assoc_group_add", false, out!(sbase), out!(s_add));
    case("assoc_group_receiver", false, out!(sbase), out!(s_recv));
    // VerifyLayout::check::<T>: the verdict depends on T, also when the same description was accepted for another T before
    {
        let desc = iface!(same);
        let first = VerifyLayout::check::<base::IfaceBox<'static>>(Some(desc));
        let second = VerifyLayout::check::<arg_type_plain::IfaceBox<'static>>(Some(desc));
        let third = VerifyLayout::check::<base::IfaceBox<'static>>(Some(desc));
        println!("CASE check_generic_identical expect=Valid got={:?} {}", first, if first == VerifyLayout::Valid { "ok" } else { "FAIL" });
        println!("CASE check_generic_other_type_after_valid expect=notValid got={:?} {}", second, if second != VerifyLayout::Valid { "ok" } else { "FAIL" });
        println!("CASE check_generic_identical_again expect=Valid got={:?} {}", third, if third == VerifyLayout::Valid { "ok" } else { "FAIL" });
        let none = VerifyLayout::check::<base::IfaceBox<'static>>(None);
        println!("CASE check_generic_missing expect=Unknown got={:?} {}", none, if none == VerifyLayout::Unknown { "ok" } else { "FAIL" });
    }
    let l = iface!(base);
    let u = [compare_layouts(None, Some(l)), compare_layouts(Some(l), None), compare_layouts(None, None)];
    println!("CASE missing_description expect=Unknown got={:?} {}", u, if u.iter().all(|v| *v == VerifyLayout::Unknown) { "ok" } else { "FAIL" });
}

//! C01 grammar probe (generated): see gen.py.  src/generated.rs and src/verif/harnesses.rs are
//! written by gen.py before every build.
#![allow(clippy::all, unused, non_camel_case_types)]
use cglue::*;

#[repr(C)]
#[derive(Clone, Copy, PartialEq, Eq, Debug)]
#[cfg_attr(kani, derive(kani::Arbitrary))]
pub struct S3 { pub a: u64, pub b: u32 }

#[derive(Clone, Copy, PartialEq, Eq, Debug)]
#[cfg_attr(kani, derive(kani::Arbitrary))]
pub struct State { pub x: u64, pub calls: u32, pub log: u32, pub dropped: u32 }

pub struct Imp { pub st: *mut State, pub id: u64 }
unsafe impl Send for Imp {}
unsafe impl Sync for Imp {}
impl Imp {
    pub fn step(&self, tag: u32, rot: u32, a: u64) -> u64 {
        let s = unsafe { &mut *self.st };
        s.calls = s.calls.wrapping_add(1);
        s.log = s.log.rotate_left(5) ^ tag;
        s.x = s.x.rotate_left(rot % 63 + 1).wrapping_add(a);
        s.x ^ self.id.rotate_left(17)
    }
}
impl Drop for Imp { fn drop(&mut self) { let s = unsafe { &mut *self.st }; s.dropped = s.dropped.wrapping_add(1); } }

pub mod generated;

#[cfg(kani)]
mod verif {
    use super::*;
    pub fn words<T>(t: &T) -> [usize; 8] {
        let n = core::mem::size_of::<T>() / 8;
        assert!(n <= 8);
        let mut w = [0usize; 8];
        let p = t as *const T as *const usize;
        let mut i = 0;
        while i < 8 { if i < n { w[i] = unsafe { *p.add(i) }; } i += 1; }
        w
    }
    pub fn same(a: [usize; 8], b: [usize; 8]) -> bool {
        let mut ok = true;
        let mut i = 0;
        while i < 8 { if a[i] != b[i] { ok = false; } i += 1; }
        ok
    }
    //@ prefix=p_shape kind=property clause=grammar probe: for the trait shape (receiver x argument list x return type x ABI flavour) with three identically-typed methods in non-alphabetical order, a call through a boxed object equals the direct call in result and instance state (call counter, per-method tag log), and leaves the object's words unchanged
    //@ prefix=canary kind=canary clause=vacuity canary
    mod harnesses;
}

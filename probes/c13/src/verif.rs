use super::*;
use cglue::*;
use cglue::trait_group::{GetContainer, CGlueObjContainer, NoContext};
use core::mem::MaybeUninit;

fn any_imp(calls: &mut u32) -> Imp {
    let code: i32 = kani::any();
    kani::assume(code != 0);
    Imp { ok: kani::any(), val: kani::any(), code, calls }
}
const SENTINEL: u64 = 0x0F0F_5A5A_A5A5_F0F0;

//@ prefix=p_e2e kind=property clause=end-to-end: a call through the object of a method using integer results (trait-level, aliased, per-method, io::Error) returns the same Result as the direct call for symbolic Ok/Err, exactly one call; methods opted out behave the same through CResult
#[kani::proof]
fn p_e2e_same_result() {
    let mut calls = 0u32;
    let imp = any_imp(&mut calls);
    let (ok, val, code) = (imp.ok, imp.val, imp.code);
    let a: u64 = kani::any();
    let which: u8 = kani::any();
    kani::assume(which < 8);
    let expect: Result<u64, i32> = if ok { Ok(val ^ a) } else { Err(code) };
    let got: Result<u64, i32> = match which {
        0 => { let o = trait_obj!(imp as WithInt); o.payload(a).map_err(|e| e.0.get()) }
        1 => { let o = trait_obj!(imp as WithInt); o.empty().map(|_| val ^ a).map_err(|e| e.0.get()) }
        2 => { let o = trait_obj!(imp as WithInt); o.plain(a).map_err(|e| e.0.get()) }
        3 => { let o = trait_obj!(imp as WithInt); o.io(a).map_err(|e| e.raw_os_error().unwrap_or(0)) }
        4 => { let o = trait_obj!(imp as WithAlias); o.aliased(a).map_err(|e| e.0.get()) }
        5 => { let o = trait_obj!(imp as WithAlias); o.aliased_plain(a).map_err(|e| e.0.get()) }
        6 => { let o = trait_obj!(imp as PerMethod); o.marked(a).map_err(|e| e.0.get()) }
        _ => { let o = trait_obj!(imp as PerMethod); o.unmarked(a).map_err(|e| e.0.get()) }
    };
    assert!(got == expect, "C13 the object call returns the same Result as the direct call (Ok payload / error code unchanged)");
    assert!(calls == 1, "C13 exactly one call");
    kani::cover!(which == 3 && !ok && code < 0, "io error with negative OS code");
    kani::cover!(which == 0 && ok, "Ok with payload");
    kani::cover!(which == 1 && !ok, "Err without payload");
}
//@ prefix=p_marked kind=property clause=every method marked to use integer results (trait-level marker, alias marker, method-level marker, method-level alias marker inside a marked trait) really has an integer-coded vtable entry (returns i32), and methods opted out do not
fn ret_is_i32<T>(_: &T) -> bool {
    let n = core::any::type_name::<T>().as_bytes();
    let l = n.len();
    l > 6 && n[l - 6] == b'-' && n[l - 5] == b'>' && n[l - 4] == b' ' && n[l - 3] == b'i' && n[l - 2] == b'3' && n[l - 1] == b'2'
}
#[kani::proof]
fn p_marked_entries_are_integer_coded() {
    let mut calls = 0u32;
    let i1 = any_imp(&mut calls);
    let o = trait_obj!(i1 as WithInt);
    let vt = o.get_vtbl();
    assert!(ret_is_i32(&vt.payload()) && ret_is_i32(&vt.empty()) && ret_is_i32(&vt.io()), "C13 methods of a trait marked #[int_result] have integer-coded entries");
    assert!(!ret_is_i32(&vt.plain()), "C13 a method marked #[no_int_result] keeps its Result");
    core::mem::forget(o);
    let i2 = any_imp(&mut calls);
    let o = trait_obj!(i2 as WithAlias);
    let vt = o.get_vtbl();
    assert!(ret_is_i32(&vt.aliased()) && !ret_is_i32(&vt.aliased_plain()), "C13 alias marker: integer-coded unless opted out");
    core::mem::forget(o);
    let i3 = any_imp(&mut calls);
    let o = trait_obj!(i3 as PerMethod);
    let vt = o.get_vtbl();
    assert!(ret_is_i32(&vt.marked()) && !ret_is_i32(&vt.unmarked()), "C13 method-level marker: only the marked method is integer-coded");
    core::mem::forget(o);
    let i4 = any_imp(&mut calls);
    let o = trait_obj!(i4 as Mixed);
    let vt = o.get_vtbl();
    assert!(ret_is_i32(&vt.plain_marked()), "C13 trait-level marker applies to plain Result methods");
    assert!(ret_is_i32(&vt.alias_marked()), "C13 a method-level alias marker inside a marked trait still yields an integer-coded entry");
    core::mem::forget(o);
    let i5 = any_imp(&mut calls);
    let o = trait_obj!(i5 as Paths);
    let vt = o.get_vtbl();
    assert!(!ret_is_i32(&vt.first_opted_out()), "C13 the opted-out method keeps its Result");
    assert!(ret_is_i32(&vt.core_path()), "C13 a Result named through core::result:: is integer-coded under the trait-level marker");
    assert!(ret_is_i32(&vt.io_alias()), "C13 std::io::Result is integer-coded under the trait-level marker");
    assert!(ret_is_i32(&vt.last_plain()), "C13 methods declared AFTER an opted-out one are still integer-coded");
    core::mem::forget(o);
    let i6 = any_imp(&mut calls);
    let o = trait_obj!(i6 as PathArg);
    let vt = o.get_vtbl();
    assert!(ret_is_i32(&vt.pa_io()), "C13 a marker whose argument is spelled with a path (io::Result) still yields integer-coded entries");
    assert!(ret_is_i32(&vt.pa_ext()) && ret_is_i32(&vt.pa_ext_unit()), "C13 methods declared extern \"C\" in a marked trait are integer-coded like the others");
    core::mem::forget(o);
    kani::cover!(true, "end");
}
#[kani::proof]
fn p_marked_paths_same_result() {
    let mut calls = 0u32;
    let imp = any_imp(&mut calls);
    let (ok, val, code) = (imp.ok, imp.val, imp.code);
    let a: u64 = kani::any();
    let which: u8 = kani::any();
    kani::assume(which < 4);
    let o = trait_obj!(imp as Paths);
    let got: Result<u64, i32> = match which {
        0 => o.first_opted_out(a).map_err(|e| e.0.get()),
        1 => o.core_path(a).map_err(|e| e.0.get()),
        2 => o.io_alias(a).map_err(|e| e.raw_os_error().unwrap_or(0)),
        _ => o.last_plain(a).map_err(|e| e.0.get()),
    };
    assert!(got == if ok { Ok(val ^ a) } else { Err(code) }, "C13 the object call returns the same Result as the direct call");
    assert!(calls == 1);
}
#[kani::proof]
fn p_marked_mixed_same_result() {
    let mut calls = 0u32;
    let imp = any_imp(&mut calls);
    let (ok, val, code) = (imp.ok, imp.val, imp.code);
    let a: u64 = kani::any();
    let which: bool = kani::any();
    let o = trait_obj!(imp as Mixed);
    let got = if which { o.plain_marked(a) } else { o.alias_marked(a) }.map_err(|e| e.0.get());
    assert!(got == if ok { Ok(val ^ a) } else { Err(code) }, "C13 the object call returns the same Result as the direct call");
    assert!(calls == 1);
}
//@ prefix=canary kind=canary clause=vacuity canary
#[kani::proof]
fn canary_c13_e2e() {
    let mut calls = 0u32;
    let imp = any_imp(&mut calls);
    let o = trait_obj!(imp as WithInt);
    assert!(o.payload(1).is_ok(), "canary: deliberately false");
}

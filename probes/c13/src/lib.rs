//! C13 probe (end-to-end clause): trait methods marked to use integer results.
#![allow(clippy::all, unused)]
mod defs;
pub use defs::*;
#[cfg(kani)]
mod verif;

//! definitions shared by probes/c13 and probes/c13s
use cglue::result::IntError;
use cglue::*;
use core::num::NonZeroI32;

#[derive(Clone, Copy, PartialEq, Eq, Debug)]
pub struct Code(pub NonZeroI32);
impl IntError for Code {
    fn into_int_err(self) -> NonZeroI32 { self.0 }
    fn from_int_err(e: NonZeroI32) -> Self { Code(e) }
}
pub type Res<T> = Result<T, Code>;

pub struct Imp { pub ok: bool, pub val: u64, pub code: i32, pub calls: *mut u32 }
unsafe impl Send for Imp {}
unsafe impl Sync for Imp {}
impl Imp {
    fn tick(&self) { unsafe { *self.calls += 1 } }
    fn err(&self) -> Code { Code(NonZeroI32::new(self.code).unwrap()) }
}

#[cglue_trait]
#[int_result]
pub trait WithInt {
    fn payload(&self, a: u64) -> Result<u64, Code>;
    fn empty(&self) -> Result<(), Code>;
    #[no_int_result]
    fn plain(&self, a: u64) -> Result<u64, Code>;
    fn io(&self, a: u64) -> Result<u64, std::io::Error>;
}
impl WithInt for Imp {
    fn payload(&self, a: u64) -> Result<u64, Code> { self.tick(); if self.ok { Ok(self.val ^ a) } else { Err(self.err()) } }
    fn empty(&self) -> Result<(), Code> { self.tick(); if self.ok { Ok(()) } else { Err(self.err()) } }
    fn plain(&self, a: u64) -> Result<u64, Code> { self.tick(); if self.ok { Ok(self.val ^ a) } else { Err(self.err()) } }
    fn io(&self, a: u64) -> Result<u64, std::io::Error> { self.tick(); if self.ok { Ok(self.val ^ a) } else { Err(std::io::Error::from_raw_os_error(self.code)) } }
}
#[cglue_trait]
#[int_result(Res)]
pub trait WithAlias {
    fn aliased(&self, a: u64) -> Res<u64>;
    #[no_int_result]
    fn aliased_plain(&self, a: u64) -> Res<u64>;
}
impl WithAlias for Imp {
    fn aliased(&self, a: u64) -> Res<u64> { self.tick(); if self.ok { Ok(self.val ^ a) } else { Err(self.err()) } }
    fn aliased_plain(&self, a: u64) -> Res<u64> { self.tick(); if self.ok { Ok(self.val ^ a) } else { Err(self.err()) } }
}
/// trait-level marker AND a method-level marker naming a different result alias: the method-level
/// one decides for that method
#[cglue_trait]
#[int_result]
pub trait Mixed {
    fn plain_marked(&self, a: u64) -> Result<u64, Code>;
    #[int_result(Res)]
    fn alias_marked(&self, a: u64) -> Res<u64>;
}
impl Mixed for Imp {
    fn plain_marked(&self, a: u64) -> Result<u64, Code> { self.tick(); if self.ok { Ok(self.val ^ a) } else { Err(self.err()) } }
    fn alias_marked(&self, a: u64) -> Res<u64> { self.tick(); if self.ok { Ok(self.val ^ a) } else { Err(self.err()) } }
}
/// Result named through a path (core::result::Result, std::io::Result) under the trait-level marker,
/// and an opt-out method declared BEFORE marked ones
#[cglue_trait]
#[int_result]
pub trait Paths {
    #[no_int_result]
    fn first_opted_out(&self, a: u64) -> Result<u64, Code>;
    fn core_path(&self, a: u64) -> core::result::Result<u64, Code>;
    fn io_alias(&self, a: u64) -> std::io::Result<u64>;
    fn last_plain(&self, a: u64) -> Result<u64, Code>;
}
impl Paths for Imp {
    fn first_opted_out(&self, a: u64) -> Result<u64, Code> { self.tick(); if self.ok { Ok(self.val ^ a) } else { Err(self.err()) } }
    fn core_path(&self, a: u64) -> core::result::Result<u64, Code> { self.tick(); if self.ok { Ok(self.val ^ a) } else { Err(self.err()) } }
    fn io_alias(&self, a: u64) -> std::io::Result<u64> { self.tick(); if self.ok { Ok(self.val ^ a) } else { Err(std::io::Error::from_raw_os_error(self.code)) } }
    fn last_plain(&self, a: u64) -> Result<u64, Code> { self.tick(); if self.ok { Ok(self.val ^ a) } else { Err(self.err()) } }
}
/// per-method opt-in
#[cglue_trait]
pub trait PerMethod {
    #[int_result]
    fn marked(&self, a: u64) -> Result<u64, Code>;
    fn unmarked(&self, a: u64) -> Result<u64, Code>;
}
impl PerMethod for Imp {
    fn marked(&self, a: u64) -> Result<u64, Code> { self.tick(); if self.ok { Ok(self.val ^ a) } else { Err(self.err()) } }
    fn unmarked(&self, a: u64) -> Result<u64, Code> { self.tick(); if self.ok { Ok(self.val ^ a) } else { Err(self.err()) } }
}

/// integer-coded result whose success payload is a WRAPPED associated value (an object)
pub struct Kid { pub id: u64 }
#[cglue_trait]
pub trait KidT { fn kid(&self) -> u64; }
impl KidT for Kid { fn kid(&self) -> u64 { self.id } }
#[cglue_trait]
#[int_result]
pub trait WithChild {
    #[wrap_with_obj(KidT)]
    type Ret: KidT + 'static;
    fn make(&self, a: u64) -> Result<Self::Ret, Code>;
}
impl WithChild for Imp {
    type Ret = Kid;
    fn make(&self, a: u64) -> Result<Kid, Code> { self.tick(); if self.ok { Ok(Kid { id: self.val ^ a }) } else { Err(self.err()) } }
}
/// the marker's argument spelled with a path, and a method declared `extern "C"`
use std::io;
#[cglue_trait]
#[int_result(io::Result)]
pub trait PathArg {
    fn pa_io(&self, a: u64) -> io::Result<u64>;
    extern "C" fn pa_ext(&self, a: u64) -> Result<u64, Code>;
    extern "C" fn pa_ext_unit(&self) -> Result<(), Code>;
}
impl PathArg for Imp {
    fn pa_io(&self, a: u64) -> io::Result<u64> { self.tick(); if self.ok { Ok(self.val ^ a) } else { Err(io::Error::from_raw_os_error(self.code)) } }
    extern "C" fn pa_ext(&self, a: u64) -> Result<u64, Code> { self.tick(); if self.ok { Ok(self.val ^ a) } else { Err(self.err()) } }
    extern "C" fn pa_ext_unit(&self) -> Result<(), Code> { self.tick(); if self.ok { Ok(()) } else { Err(self.err()) } }
}

//! C04, determinism clause — BOUNDED NATIVE STAND-IN (not a proof).
//! "Expanding the same definitions again, in another process [...], yields the same layout."
//!
//! The REAL generator (`/repo/cglue-gen`, the library behind the proc macros) is run on the trait and
//! group definitions of the probe crates in K fresh processes (fresh `RandomState` hash seeds each)
//! and the emitted token streams are compared item by item.  Driver mode (no arguments) spawns the
//! children; `emit <files...>` is the child mode.
use quote::ToTokens;
// (glob import at the crate root: the generator's `wrap_with_*_ref/_mut` arms name
// `crate::trait_group::CGlueObjBase` literally, which only resolves when the using crate
// re-exports cglue at its root — a compile-time wart of the generator, outside the listed properties)
#[allow(unused_imports)]
use cglue::*;
#[allow(unused, clippy::all)]
mod defs; // compiled too, so the extra definitions are known to be valid programs
use std::collections::BTreeMap;
use std::process::Command;

fn has_attr(attrs: &[syn::Attribute], name: &str) -> bool {
    attrs.iter().any(|a| a.path.segments.last().map(|s| s.ident == name).unwrap_or(false))
}
fn strip(attrs: &mut Vec<syn::Attribute>, names: &[&str]) {
    attrs.retain(|a| !names.iter().any(|n| a.path.segments.last().map(|s| s.ident == n).unwrap_or(false)));
}

fn expand_items(file: &str, items: Vec<syn::Item>, out: &mut Vec<(String, String)>) {
    let mut n_grp = 0usize;
    for it in items {
        match it {
            syn::Item::Trait(mut tr) => {
                let name = tr.ident.to_string();
                let is_trait = has_attr(&tr.attrs, "cglue_trait");
                let is_ext = has_attr(&tr.attrs, "cglue_trait_ext");
                let is_fwd = has_attr(&tr.attrs, "cglue_forward");
                if !(is_trait || is_ext || is_fwd) { continue; }
                strip(&mut tr.attrs, &["cglue_trait", "cglue_trait_ext", "cglue_forward"]);
                if is_fwd {
                    let ts = cglue_gen::forward::gen_forward(tr.clone(), None);
                    out.push((format!("{}:forward:{}", file, name), ts.to_string()));
                }
                if is_trait {
                    let ts = cglue_gen::traits::gen_trait(tr, None);
                    out.push((format!("{}:trait:{}", file, name), ts.to_string()));
                } else if is_ext {
                    let ext = quote::format_ident!("{}Ext", tr.ident);
                    let ts = cglue_gen::traits::gen_trait(tr, Some(&ext));
                    out.push((format!("{}:trait_ext:{}", file, name), ts.to_string()));
                }
            }
            syn::Item::Macro(m) => {
                let mname = m.mac.path.segments.last().map(|s| s.ident.to_string()).unwrap_or_default();
                if mname == "cglue_trait_group" {
                    let g: cglue_gen::trait_groups::TraitGroup = syn::parse2(m.mac.tokens.clone()).expect("group parses");
                    n_grp += 1;
                    out.push((format!("{}:group#{}:{}", file, n_grp, first_ident(&m.mac.tokens)), g.create_group().to_string()));
                } else if mname == "cglue_impl_group" {
                    let g: cglue_gen::trait_groups::TraitGroupImpl = syn::parse2(m.mac.tokens.clone()).expect("group impl parses");
                    n_grp += 1;
                    out.push((format!("{}:impl_group#{}:{}", file, n_grp, first_ident(&m.mac.tokens)), g.implement_group().to_string()));
                }
            }
            syn::Item::Mod(md) => {
                if let Some((_, items)) = md.content { expand_items(file, items, out); }
            }
            _ => {}
        }
    }
}
fn first_ident(ts: &proc_macro2::TokenStream) -> String {
    ts.clone().into_iter().next().map(|t| t.to_string()).unwrap_or_default()
}

fn emit(files: &[String]) {
    let mut out = Vec::new();
    for f in files {
        let text = std::fs::read_to_string(f).expect("definition file readable");
        let parsed = syn::parse_file(&text).expect("definition file parses");
        let short = std::path::Path::new(f).components().rev().nth(2).map(|c| c.as_os_str().to_string_lossy().to_string()).unwrap_or_default();
        expand_items(&short, parsed.items, &mut out);
    }
    // builtin store of external traits (emitted into the cglue crate itself)
    out.push(("builtin:ext_store".into(), cglue_gen::ext::impl_store().to_string()));
    out.push(("builtin:ext_forward".into(), cglue_gen::ext::impl_ext_forward().to_string()));
    for (k, v) in out {
        println!("ITEM {}\t{}", k, v.replace('\n', " "));
    }
}

/// every struct of an expansion, keyed by module path + name: its attributes (repr) and its
/// fields (name and type) in emission order
fn struct_fields(expansion: &str) -> BTreeMap<String, (String, Vec<(String, String)>)> {
    let mut res = BTreeMap::new();
    if let Ok(file) = syn::parse_str::<syn::File>(expansion) {
        fn walk(path: &str, items: &[syn::Item], res: &mut BTreeMap<String, (String, Vec<(String, String)>)>) {
            for it in items {
                match it {
                    syn::Item::Struct(s) => {
                        let fields = s.fields.iter().map(|f| (f.ident.as_ref().map(|i| i.to_string()).unwrap_or_default(), f.ty.to_token_stream().to_string())).collect();
                        let attrs = s.attrs.iter().filter(|a| a.path.is_ident("repr")).map(|a| a.to_token_stream().to_string()).collect::<Vec<_>>().join(" ");
                        res.insert(format!("{}::{}", path, s.ident), (attrs, fields));
                    }
                    syn::Item::Mod(m) => { if let Some((_, items)) = &m.content { walk(&format!("{}::{}", path, m.ident), items, res) } }
                    _ => {}
                }
            }
        }
        walk("", &file.items, &mut res);
    }
    res
}

fn main() {
    let args: Vec<String> = std::env::args().collect();
    if args.len() > 1 && args[1] == "emit" { emit(&args[2..]); return; }
    let runs: usize = std::env::var("C04D_RUNS").ok().and_then(|s| s.parse().ok()).unwrap_or(6);
    let verif = std::env::var("C04D_PROBES").unwrap_or_else(|_| concat!(env!("CARGO_MANIFEST_DIR"), "/..").to_string());
    let files: Vec<String> = ["c04/src/lib.rs", "c01/src/lib.rs", "c06/src/lib.rs", "c07/src/lib.rs", "c13/src/defs.rs", "c02/src/lib.rs", "c04d/src/defs.rs"]
        .iter().map(|f| format!("{}/{}", verif, f)).filter(|f| std::path::Path::new(f).exists()).collect();
    let exe = std::env::current_exe().unwrap();
    let mut runs_out: Vec<BTreeMap<String, String>> = Vec::new();
    for i in 0..runs {
        let o = Command::new(&exe).arg("emit").args(&files).output().expect("child runs");
        if !o.status.success() {
            println!("CASE child_{} expect=exit0 got=exit{} FAIL", i, o.status.code().unwrap_or(-1));
            eprintln!("{}", String::from_utf8_lossy(&o.stderr));
            std::process::exit(0);
        }
        let mut m = BTreeMap::new();
        for l in String::from_utf8_lossy(&o.stdout).lines() {
            if let Some(rest) = l.strip_prefix("ITEM ") {
                let mut sp = rest.splitn(2, '\t');
                let k = sp.next().unwrap().to_string();
                m.insert(k, sp.next().unwrap_or("").to_string());
            }
        }
        runs_out.push(m);
    }
    let first = &runs_out[0];
    for (k, v0) in first {
        let mut differing = 0;
        let mut layout_differs = false;
        for r in &runs_out[1..] {
            match r.get(k) {
                Some(v) if v == v0 => {}
                Some(v) => { differing += 1; if struct_fields(v) != struct_fields(v0) { layout_differs = true; } }
                None => { differing += 1; layout_differs = true; }
            }
        }
        let name = k.replace(' ', "_");
        // the property is about LAYOUT: every structure (vtables, groups, containers, temporary
        // storage) must have the same repr, fields, field types and field order in every process
        let got = if layout_differs { "layout_differs" } else { "same_layout" };
        println!("CASE layout_{} expect=same_layout got={} {}", name, got, if layout_differs { "FAIL" } else { "ok" });
        // (informational only: e.g. the builtin store emits its modules in hash order, which moves
        // no field of any structure)
        if differing > 0 { println!("INFO tokens_{} differ in {} of {} further processes (no structure differs: {})", name, differing, runs - 1, !layout_differs); }
    }
    eprintln!("{} items x {} processes", first.len(), runs);
}

//! extra definitions for the determinism stand-in: shapes whose expansion goes through maps / sets
//! inside the generator (several associated-type bindings on one trait of a group, several generic
//! parameters, several lifetimes, several wrapped associated types)
use cglue::*;

#[cglue_trait]
pub trait Multi {
    type Zed;
    type Alpha;
    type Mid;
    fn put(&mut self, z: Self::Zed, a: Self::Alpha, m: Self::Mid) -> u32;
}
#[cglue_trait]
pub trait Plain { fn id(&self) -> u32; }
cglue_trait_group!(GMulti, Multi<Zed = u8, Alpha = u64, Mid = u16>, { Plain });
cglue_trait_group!(GMultiOpt, Plain, { Multi<Zed = u8, Alpha = u64, Mid = u16> });

#[cglue_trait]
pub trait Gen3<Zt, At, Mt> { fn g3(&self, z: Zt, a: At, m: Mt) -> u32; }
cglue_trait_group!(GGen<Zt, At, Mt>, Gen3<Zt, At, Mt>, { Plain });

#[cglue_trait]
pub trait Kid { fn kid(&self) -> u32; }
#[cglue_trait]
pub trait Wraps {
    #[wrap_with_obj(Kid)]
    type Zo: Kid + 'static;
    #[wrap_with_obj_ref(Kid)]
    type Ar: Kid + 'static;
    #[wrap_with_group(GKid)]
    type Mg: Kid + 'static;
    fn zo(&self) -> Self::Zo;
    fn ar(&self) -> &Self::Ar;
    fn mg(&self) -> Self::Mg;
}
cglue_trait_group!(GKid, Kid, { Plain });

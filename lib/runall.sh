#!/bin/bash
# run every claimed check (quick by default) sequentially; print one line per property
cd "$(dirname "$0")/.."
tier=${1:-quick}
mkdir -p build
for p in $(python3 -c "import json;print(' '.join(c['property_id'] for c in json.load(open('MANIFEST.json'))['checks']))"); do
  s=$(date +%s)
  ./check $p --tier $tier > build/runall-$p.out 2> build/runall-$p.err; rc=$?
  echo "$p rc=$rc $(( $(date +%s)-s ))s $(tail -1 build/runall-$p.out)"
done
python3-vt lib/validate.py | grep -v valid$ || true

#!/usr/bin/env python3
"""lib/mkprompts.py <round-number> [PROP...]: write build/prompts/<ID>r<N>.txt for a further round of
seeded changes (base text of the previous round + the mechanisms already used for that property, from
seeded/*/meta.json) and create the scratch worktrees /tmp/s<N>_<ID>."""
import sys, os, re, json, glob, subprocess
n = sys.argv[1]
props = sys.argv[2:] or ["C01", "C02", "C04", "C06", "C07", "C08", "C10", "C11", "C12", "C13", "C14", "C15", "C16", "C19", "C20"]
HINT_OLD = ("Under-used so far: standard-library trait methods with default bodies that a wrapper type could override "
        "(Iterator::size_hint/fold/nth, Clone::clone_from, Extend::extend_one, PartialEq::ne, Hash::hash_slice, Default, Debug/Display of the wrapper types), "
        "conversions between the wrapper types themselves (From/Into/AsRef/Deref/Borrow impls), helper METHODS as opposed to the free functions the generated code calls, "
        "inputs that were type-erased / converted BEFORE being wrapped, behaviour that depends on a SEQUENCE (second use, use after a failure/stop/None, after clone, "
        "after conversion to opaque and back, interleaving two objects), generic traits and generic groups (`Group<T>`), associated types used as ARGUMENTS or bound in a group "
        "(`Trait<Assoc = X>`), traits with lifetime parameters, `Self`-returning methods, `#[skip_func]`, `#[vtbl_only]`, `#[custom_impl]`, `#[wrap_with]`/`#[return_wrap]`, supertraits, "
        "external traits (`#[cglue_trait_ext]`, the builtin Clone/AsRef/AsMut/fmt::*/Future/Stream/Sink glue), forwarded traits (`#[cglue_forward]`, `Fwd`), contexts other than CArc, "
        "by-reference containers, arithmetic corner cases (usize::MAX, zero lengths, capacity overflow, alignment > 8, zero-sized types), and cooperating edits at two sites.")
HINT = ("Under-used so far (prefer these): code in cglue/src/trait_group.rs (the accessor traits CGlueObjBase / CGlueObjRef / CGlueObjMut / CGlueObjOwned / GetContainer / GetVtbl / IntoInner, "
        "the `From` constructors of CGlueTraitObj and CGlueObjContainer, `Opaquable` impls, `cobj_pin_*`), cglue/src/forward.rs (`Fwd`, `Forward`, `ForwardMut`), cglue/src/from2.rs, "
        "cglue/src/boxed.rs (`CSliceBox`, `IntoInner`), cglue-macro/src/lib.rs (`trait_obj!`, `group_obj!`, `cast!` ... argument parsing and path remapping), cglue-gen/src/generics.rs and "
        "cglue-gen/src/util.rs (generic parameter / lifetime / path handling), cglue-gen/src/forward.rs, cglue-gen/src/ext/* (builtin Clone / AsRef / AsMut / fmt / Future / Stream / Sink glue); "
        "behaviour that only differs in a NON-DEFAULT CONFIGURATION that still builds offline (`--features rust_void`, `unwind_abi`, `task`, `futures`, `layout_checks`, `unstable`) — say which "
        "in meta.txt and make the demo use it; behaviour on the second and later uses of one value; pinned receivers (`Pin<&Self>`, `Pin<&mut Self>`); `unsafe fn` and `extern \"C\" fn` trait methods; "
        "traits with a lifetime parameter and `'a`-bounded associated types; groups with generic parameters; objects built with `(value, context)` tuples for unusual context types; chained "
        "conversions (opaque -> cast -> upcast -> cast again -> into). AVOID (already heavily used): overriding standard-library default methods, sabi/StableAbi attribute edits, swapped "
        "clone/drop pairs, forgotten mem::forget, trailing-NUL / UTF-8 tweaks to strings, HashMap ordering, vtable slot dropping for attribute-marked methods.")
for p in props:
    prev = sorted(glob.glob(f"/verif/build/prompts/{p}r*.txt"), key=lambda f: int(re.search(r"r(\d+)\.txt", f).group(1)))[-1]
    old_n = re.search(r"r(\d+)\.txt", prev).group(1)
    base = open(prev).read().split("IMPORTANT —")[0].replace(f"/tmp/s{old_n}_{p}", f"/tmp/s{n}_{p}")
    used = []
    for f in sorted(glob.glob(f"/verif/seeded/{p}-*/meta.json")):
        m = json.load(open(f))
        note = (m.get("agent_notes") or "").strip().replace("\n", " ")
        if note:
            used.append("  - " + note[:260])
    txt = base + ("IMPORTANT — the mechanisms listed below have ALREADY been used by others for this property; do NOT repeat them or close variations. "
                  "Find genuinely different code sites and failure modes. " + HINT + "\n" + "\n".join(used) + "\n")
    open(f"/verif/build/prompts/{p}r{n}.txt", "w").write(txt)
    wt = f"/tmp/s{n}_{p}"
    if not os.path.isdir(wt):
        subprocess.run(["git", "-C", "/repo", "worktree", "add", "-q", "--detach", wt, "HEAD"], check=True)
print("ok", len(props))

#!/usr/bin/env python3
"""lib/mkprompts.py <round-number> [PROP...]: write build/prompts/<ID>r<N>.txt for a further round of
seeded changes (base text of the previous round + the mechanisms already used for that property, from
seeded/*/meta.json) and create the scratch worktrees /tmp/s<N>_<ID>."""
import sys, os, re, json, glob, subprocess
n = sys.argv[1]
props = sys.argv[2:] or ["C01", "C02", "C04", "C06", "C07", "C08", "C10", "C11", "C12", "C13", "C14", "C15", "C16", "C19", "C20"]
HINT_OLD = ("Under-used so far: standard-library trait methods with default bodies that a wrapper type could override "
        "(Iterator::size_hint/fold/nth, Clone::clone_from, Extend::extend_one, PartialEq::ne, Hash::hash_slice, Default, Debug/Display of the wrapper types), "
        "conversions between the wrapper types themselves (From/Into/AsRef/Deref/Borrow impls), helper METHODS as opposed to the free functions the generated code calls, "
        "inputs that were type-erased / converted BEFORE being wrapped, behaviour that depends on a SEQUENCE (second use, use after a failure/stop/None, after clone, "
        "after conversion to opaque and back, interleaving two objects), generic traits and generic groups (`Group<T>`), associated types used as ARGUMENTS or bound in a group "
        "(`Trait<Assoc = X>`), traits with lifetime parameters, `Self`-returning methods, `#[skip_func]`, `#[vtbl_only]`, `#[custom_impl]`, `#[wrap_with]`/`#[return_wrap]`, supertraits, "
        "external traits (`#[cglue_trait_ext]`, the builtin Clone/AsRef/AsMut/fmt::*/Future/Stream/Sink glue), forwarded traits (`#[cglue_forward]`, `Fwd`), contexts other than CArc, "
        "by-reference containers, arithmetic corner cases (usize::MAX, zero lengths, capacity overflow, alignment > 8, zero-sized types), and cooperating edits at two sites.")
HINT = ("Under-used so far (prefer these): argument and return SHAPES rarely seen — bool / char / u128 / i128 / isize / f32 / f64 arguments, arrays by value, "
        "CTup2..CTup4 tuples, nested Option<Result<..>>, `&mut str`, returned `Option<&mut T>`, `impl Into<T>` with a non-trivial conversion, several slices and strings in one call, "
        "generic METHODS handled via attributes; containers rarely seen — `Fwd<&T>` / `Fwd<&mut T>`, `CSliceBox`, `CBox::from((T, NoContext))`, `IntoInner`, `CArcSome` as instance, objects "
        "built from an already-opaque object, two objects sharing one context, a group inside a group's associated type; generator paths rarely taken — default method bodies calling by-value "
        "methods, `where Self: Sized` methods, `unsafe` / `extern \"C\"` trait methods, traits with constants or supertraits, lifetimes on methods (`fn f<'a>(&'a self, ..) -> &'a T`), "
        "`#[wrap_with_obj_mut]` / `#[wrap_with_group_mut]`, `#[return_wrap]`, `#[custom_impl]`, `#[vtbl_only]`; behaviour on the SECOND and later uses of the same object/value (state kept "
        "between calls, temporary return storage reused, something cached); conversions chained (`into_opaque` twice, cast then cast again, upcast then cast); arithmetic corner cases "
        "(usize::MAX, isize::MAX bytes, zero-sized or over-aligned (align 16/64) types, capacity 0 with a dangling pointer); error / early-return paths (failure in the middle of a "
        "multi-step operation, panics are out of scope); cooperating edits at two sites that are each harmless alone. AVOID (already heavily used): overriding standard-library default "
        "methods (clone_from, nth, size_hint, ...), sabi/StableAbi attribute edits, swapped clone/drop pairs, forgotten mem::forget.")
for p in props:
    prev = sorted(glob.glob(f"/verif/build/prompts/{p}r*.txt"), key=lambda f: int(re.search(r"r(\d+)\.txt", f).group(1)))[-1]
    old_n = re.search(r"r(\d+)\.txt", prev).group(1)
    base = open(prev).read().split("IMPORTANT —")[0].replace(f"/tmp/s{old_n}_{p}", f"/tmp/s{n}_{p}")
    used = []
    for f in sorted(glob.glob(f"/verif/seeded/{p}-*/meta.json")):
        m = json.load(open(f))
        note = (m.get("agent_notes") or "").strip().replace("\n", " ")
        if note:
            used.append("  - " + note[:260])
    txt = base + ("IMPORTANT — the mechanisms listed below have ALREADY been used by others for this property; do NOT repeat them or close variations. "
                  "Find genuinely different code sites and failure modes. " + HINT + "\n" + "\n".join(used) + "\n")
    open(f"/verif/build/prompts/{p}r{n}.txt", "w").write(txt)
    wt = f"/tmp/s{n}_{p}"
    if not os.path.isdir(wt):
        subprocess.run(["git", "-C", "/repo", "worktree", "add", "-q", "--detach", wt, "HEAD"], check=True)
print("ok", len(props))

#!/usr/bin/env python3
import json, glob, jsonschema
jsonschema.validate(json.load(open('MANIFEST.json')), json.load(open('/root/.vp/MANIFEST.schema.json'))); print('manifest valid')
s = json.load(open('/root/.vp/EVIDENCE.schema.json'))
for f in sorted(glob.glob('evidence/*.json')):
    jsonschema.validate(json.load(open(f)), s); print(f, 'valid')

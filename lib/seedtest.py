#!/usr/bin/env python3
"""lib/seedtest.py <seed_dir> <prop> [<prop>...] : apply <seed_dir>/patch.diff to /repo, run the quick
checks of the given properties, revert /repo.  Prints one line per property."""
import subprocess, sys, os, json, time
seed = sys.argv[1]; props = sys.argv[2:]
patch = os.path.join(seed, "patch.diff")
def sh(c, **k): return subprocess.run(c, shell=True, text=True, capture_output=True, **k)
assert sh("git -C /repo status --porcelain --untracked-files=no").stdout.strip() == "", "/repo not clean"
r = sh(f"git -C /repo apply {patch}")
if r.returncode != 0:
    print("APPLY FAILED", r.stderr); sys.exit(3)
res = {}
try:
    for p in props:
        t = time.time()
        env = dict(os.environ); env.setdefault("VERIF_MAX_NATIVE", "1"); env.setdefault("VERIF_MAX_REPLAYS", "2")
        r = subprocess.run(["./check", p, "--tier", os.environ.get("SEED_TIER", "quick")], cwd="/verif", text=True, capture_output=True, env=env)
        vio = [l for l in r.stdout.splitlines() if l.startswith("VIOLATION")]
        fails = [l.strip() for l in r.stderr.splitlines() if "[         fail]" in l or "[    undecided]" in l]
        res[p] = {"rc": r.returncode, "violations": vio, "failing": fails[:12], "wall_s": round(time.time() - t)}
        print(p, "rc=", r.returncode, len(vio), "violation lines;", "; ".join(f.split()[2] if len(f.split()) > 2 else f for f in fails[:8]))
finally:
    sh("git -C /repo checkout -- . && git -C /repo clean -fdq")
json.dump(res, open(os.path.join(seed, "check_result.json"), "w"), indent=1)

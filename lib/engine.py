#!/usr/bin/env python3
"""Shared machinery for /verif/check: Kani and Verus runners, output parsing, verdict policy,
replay, known findings and evidence.  See DESIGN.md sections 2, 4, 5."""
import json, os, re, shutil, subprocess, sys, time, hashlib

VERIF = os.path.dirname(os.path.dirname(os.path.abspath(__file__)))
REPO = os.environ.get("VERIF_REPO", "/repo")
BUILD = os.path.join(VERIF, "build")
MODULES = ["arc", "boxed", "callback", "forward", "iter", "option", "repr_cstring", "result",
           "slice", "trait_group", "tuple", "vec", "task"]
NCPU = int(os.environ.get("VERIF_JOBS", "16"))

# failed-check descriptions that mean "the verifier could not decide", never a violation
UNDECIDED_PATTERNS = [
    r"unwinding assertion", r"recursion unwinding", r"is not currently supported by Kani",
    r"unsupported", r"Kani does not support", r"not yet supported", r"caller_location",
    r"foreign function", r"CBMC failed", r"out of memory", r"timed out", r"Timeout",
]


def log(*a):
    print(*a, file=sys.stderr, flush=True)


def sh(cmd, env=None, cwd=None, timeout=None):
    t0 = time.time()
    try:
        p = subprocess.run(cmd, env=env, cwd=cwd, stdout=subprocess.PIPE, stderr=subprocess.STDOUT,
                           timeout=timeout, text=True, errors="replace")
        return p.returncode, p.stdout, time.time() - t0
    except subprocess.TimeoutExpired as e:
        out = e.stdout if isinstance(e.stdout, str) else (e.stdout or b"").decode("utf8", "replace")
        return 124, out + "\n[verif] wall timeout\n", time.time() - t0


# ------------------------------------------------------------------------------------------------
# harness source handling
# ------------------------------------------------------------------------------------------------

def preprocess_tier(text, tier):
    """Drop //@thorough-begin … //@thorough-end regions in the quick tier; //@quick-begin/-end
    regions in the thorough tier."""
    out, skip = [], None
    for line in text.splitlines(keepends=True):
        s = line.strip()
        m = re.match(r"//@(thorough|quick)-(begin|end)$", s)
        if m:
            which, edge = m.groups()
            if edge == "begin" and which != tier:
                skip = which
            elif edge == "end" and skip == which:
                skip = None
            continue
        if skip is None:
            out.append(line)
    return "".join(out)


def parse_annotations(text):
    """//@ prefix=<p> kind=<property|aux|canary> clause=<text>  →  list of dicts"""
    anns = []
    for m in re.finditer(r"^\s*//@\s*prefix=(\S+)\s+kind=(\S+)\s+clause=(.*)$", text, re.M):
        anns.append({"prefix": m.group(1), "kind": m.group(2), "clause": m.group(3).strip()})
    return anns


def annotation_for(anns, short):
    best = None
    for a in anns:
        if short.startswith(a["prefix"]) and (best is None or len(a["prefix"]) > len(best["prefix"])):
            best = a
    return best or {"prefix": short, "kind": "property", "clause": short}


ASSUME_SCAN = [r"kani::assume\s*\(", r"#\[kani::stub\(", r"stub_verified", r"external_body",
               r"assume_specification", r"\badmit\s*\(", r"\bassume\s*\(", r"kani::unwind\(",
               r"external_fn_specification", r"#\[verifier::external"]


def scan_assumptions(paths):
    found = []
    for p in paths:
        try:
            txt = open(p).read()
        except OSError:
            continue
        for i, line in enumerate(txt.splitlines(), 1):
            if line.strip().startswith("//"):
                continue
            for pat in ASSUME_SCAN:
                if re.search(pat, line):
                    found.append(f"{os.path.relpath(p, VERIF)}:{i}: {line.strip()[:160]}")
                    break
    return found


# ------------------------------------------------------------------------------------------------
# Kani
# ------------------------------------------------------------------------------------------------

def prepare_inc(prop, unit, tier):
    """Build the include directory consumed by hook H2 for this unit."""
    inc = os.path.join(BUILD, prop, unit["name"], "inc")
    shutil.rmtree(inc, ignore_errors=True)
    os.makedirs(inc)
    srcdir = os.path.join(VERIF, unit["harness_src"]) if unit.get("harness_src") else None
    anns, srcs = [], []
    instances = None
    if srcdir and os.path.exists(os.path.join(srcdir, "gen.py")):
        import importlib.util
        spec = importlib.util.spec_from_file_location("gen_" + prop, os.path.join(srcdir, "gen.py"))
        mod = importlib.util.module_from_spec(spec); spec.loader.exec_module(mod)
        instances = mod.instances(tier)
        srcs.append(os.path.join(srcdir, "gen.py"))
    for m in MODULES:
        dst = os.path.join(inc, m + ".rs")
        src = os.path.join(srcdir, m + ".rs") if srcdir else None
        if src and os.path.exists(src):
            txt = preprocess_tier(open(src).read(), tier)
            if instances is not None:
                txt = txt.replace("/*INSTANCES*/", instances)
            anns += parse_annotations(txt)
            srcs.append(src)
            open(dst, "w").write(txt)
        else:
            open(dst, "w").write("")
    return inc, anns, srcs


def kani_env(inc, target):
    env = dict(os.environ)
    env["H33P_CGLUE_VERIF_DIR"] = inc
    env["CARGO_NET_OFFLINE"] = "true"
    env["CARGO_TARGET_DIR"] = target
    env.pop("RUSTFLAGS", None)
    return env


def kani_cmd(unit, harness_filter=None, jobs=NCPU, extra=None, timeout_s=None):
    cmd = ["cargo", "kani"]
    if unit.get("features"):
        cmd += ["--features", ",".join(unit["features"])]
    if unit.get("no_default_features"):
        cmd += ["--no-default-features"]
    cmd += ["-Z", "unstable-options"]
    for z in sorted(set(unit.get("z", [])) | {"function-contracts"}):
        cmd += ["-Z", z]
    if jobs and jobs > 1:
        cmd += ["-j", str(jobs)]
    cmd += ["--output-format", "terse"]
    if timeout_s:
        cmd += ["--harness-timeout", f"{int(timeout_s)}s"]
    if harness_filter:
        for h in harness_filter:
            cmd += ["--harness", h]
        cmd += ["--exact"]
    cmd += extra or []
    cbmc = list(unit.get("cbmc_args", ["--memory-leak-check"]))
    if cbmc:
        cmd += ["--cbmc-args"] + cbmc
    return cmd


def parse_kani(out):
    """Parse `--output-format terse` (with or without -j) into {harness: result}."""
    res, cur_by_thread, cur = {}, {}, None
    order = []
    lines = out.splitlines()
    i = 0

    def new(name):
        r = {"harness": name, "status": None, "checks": 0, "failed": 0, "failed_checks": [],
             "covers": None, "covers_sat": None, "time_s": None, "raw": []}
        res[name] = r
        order.append(name)
        return r

    while i < len(lines):
        ln = lines[i]
        m = re.match(r"^(?:Thread (\d+): )?Checking harness (\S+?)\.\.\.$", ln.strip())
        if m:
            th, name = m.group(1) or "0", m.group(2)
            cur_by_thread[th] = new(name)
            cur = cur_by_thread[th]
            i += 1
            continue
        m = re.match(r"^Thread (\d+):\s*$", ln)
        if m:
            cur = cur_by_thread.get(m.group(1))
            i += 1
            continue
        if ln.startswith("Manual Harness Summary") or ln.startswith("Complete - "):
            cur = None
        if cur is not None:
            cur["raw"].append(ln)
            m = re.search(r"\*\* (\d+) of (\d+) failed", ln)
            if m:
                cur["failed"], cur["checks"] = int(m.group(1)), int(m.group(2))
            m = re.search(r"\*\* (\d+) of (\d+) cover properties satisfied", ln)
            if m:
                cur["covers_sat"], cur["covers"] = int(m.group(1)), int(m.group(2))
            m = re.match(r"^Failed Checks: (.*)$", ln)
            if m:
                fc = {"description": m.group(1).strip().strip('"'), "location": ""}
                if i + 1 < len(lines) and lines[i + 1].strip().startswith("File:"):
                    fc["location"] = lines[i + 1].strip()
                cur["failed_checks"].append(fc)
            m = re.match(r"^VERIFICATION:- (\w+)(.*)$", ln)
            if m:
                cur["status"] = m.group(1)
                cur["status_note"] = m.group(2).strip()
            m = re.match(r"^Verification Time: ([0-9.]+)s", ln)
            if m:
                cur["time_s"] = float(m.group(1))
        i += 1
    return res, order


def classify_failed_check(desc):
    for pat in UNDECIDED_PATTERNS:
        if re.search(pat, desc, re.I):
            return "undecided"
    return "failure"


def run_kani_unit(prop, unit, tier, report):
    """Runs one Kani unit.  Appends harness records to report['harnesses'] and reasons to
    report['undecided'].  Returns nothing."""
    inc, anns, srcs = prepare_inc(prop, unit, tier)
    crate_dir = unit["crate_dir"].replace("$REPO", REPO).replace("$VERIF", VERIF)
    if unit.get("probe"):
        # probe crates live in /verif; they path-depend on /repo/cglue and /repo/cglue-macro, so
        # the real generator is re-run on every build.  Harness annotations come from its sources.
        genpy = os.path.join(crate_dir, "gen.py")
        if os.path.exists(genpy):
            grc, gout, _ = sh([sys.executable, genpy, tier], cwd=crate_dir)
            if grc != 0:
                report["undecided"].append(f"{unit['name']}: probe generator failed: {gout[-800:]}")
                return
            srcs.append(genpy)
        tin = os.path.join(crate_dir, "Cargo.toml.in")
        if os.path.exists(tin):
            open(os.path.join(crate_dir, "Cargo.toml"), "w").write(open(tin).read().replace("@REPO@", REPO))
        lock = os.path.join(REPO, "Cargo.lock")
        if os.path.exists(lock):
            shutil.copy(lock, os.path.join(crate_dir, "Cargo.lock"))
        for root, _d, files in os.walk(os.path.join(crate_dir, "src")):
            for f in files:
                if f.endswith(".rs"):
                    p = os.path.join(root, f)
                    anns += parse_annotations(preprocess_tier(open(p).read(), tier))
                    srcs.append(p)
    target = os.path.join(BUILD, prop, unit["name"], "target")
    env = kani_env(inc, target)
    if unit.get("probe"):
        env["VERIF_TIER"] = tier
    per_h = unit.get("timeout_s", {}).get(tier, 600 if tier == "quick" else 3000)
    extra = []
    if unit.get("probe") and tier == "thorough" and unit.get("thorough_cfg"):
        env["RUSTFLAGS"] = ""
    cmd = kani_cmd(unit, jobs=unit.get("jobs", NCPU), timeout_s=per_h, extra=extra)
    only = os.environ.get("VERIF_ONLY")
    if only:
        idx = cmd.index("--output-format")
        for h in only.split(","):
            cmd[idx:idx] = ["--harness", h]
    elif unit.get("harness_prefixes", {}).get(tier):
        # substring filters (no --exact)
        idx = cmd.index("--output-format")
        for h in unit["harness_prefixes"][tier]:
            cmd[idx:idx] = ["--harness", h]
    wall = unit.get("wall_s", {}).get(tier, 1500 if tier == "quick" else 7200)
    log(f"[{prop}/{unit['name']}] {' '.join(cmd)}  (cwd={crate_dir})")
    rc, out, dt = sh(cmd, env=env, cwd=crate_dir, timeout=wall)
    logdir = os.path.join(BUILD, prop, unit["name"])
    open(os.path.join(logdir, f"kani-{tier}.log"), "w").write(out)
    res, order = parse_kani(out)
    report["commands"].append({"unit": unit["name"], "cmd": " ".join(cmd), "cwd": crate_dir,
                               "env": {"H33P_CGLUE_VERIF_DIR": inc}, "rc": rc, "wall_s": round(dt, 1)})
    report["sources"] += srcs
    if not res:
        tail = "\n".join(out.splitlines()[-40:])
        report["undecided"].append(f"{unit['name']}: Kani produced no harness results (build failure / lost anchor?) rc={rc}\n{tail}")
        return
    if rc == 124:
        report["undecided"].append(f"{unit['name']}: wall timeout after {wall}s")
    minh = unit.get("min_harnesses", {}).get(tier, 1)
    if len(res) < minh and not only:
        report["undecided"].append(f"{unit['name']}: only {len(res)} harnesses ran, registered minimum is {minh}")
    for name in order:
        r = res[name]
        short = name.split("::")[-1]
        a = annotation_for(anns, short)
        rec = {"unit": unit["name"], "harness": name, "short": short, "kind": a["kind"], "clause": a["clause"],
               "backend": "kani 0.68 / cbmc 6.11 (cadical)", "checks": r["checks"], "failed": r["failed"],
               "status": r["status"], "covers": r["covers"], "covers_sat": r["covers_sat"],
               "time_s": r["time_s"], "failed_checks": r["failed_checks"], "verdict": None,
               "crate_dir": crate_dir, "inc": inc, "unit_cfg": unit,
               "raw": "\n".join(x for x in r["raw"] if x.strip())[-4000:]}
        real = [fc for fc in r["failed_checks"] if classify_failed_check(fc["description"]) == "failure"]
        und = [fc for fc in r["failed_checks"] if classify_failed_check(fc["description"]) == "undecided"]
        rec["real_failed"] = real
        if r["status"] is None:
            rec["verdict"] = "undecided"
            rec["why"] = "no verdict (timeout, crash or memory cap): " + " | ".join(x for x in r["raw"][-6:] if x.strip())
        elif a["kind"] == "panic":
            # #[kani::should_panic] harness with one MUST-NOT-REACH cover after the call
            if r["status"] == "SUCCESSFUL" and (r["covers_sat"] or 0) == 0 and r["covers"]:
                rec["verdict"] = "pass"
            elif r["status"] == "SUCCESSFUL" and not r["covers"]:
                rec["verdict"] = "undecided"
                rec["why"] = "panic harness without MUST-NOT-REACH cover"
            elif (r["covers_sat"] or 0) > 0:
                rec["verdict"] = "fail"
                rec["real_failed"] = [{"description": "a MUST-NOT-REACH cover was satisfied: the call returned normally for some out-of-range input, or the value was modified before the input was rejected", "location": ""}]
            elif und and not real:
                rec["verdict"] = "undecided"
                rec["why"] = "; ".join(fc["description"] for fc in und)
            else:
                rec["verdict"] = "fail"
                rec["real_failed"] = real or [{"description": "expected panic not reached or non-panic failure: " + " ".join(x.strip() for x in r["raw"] if "VERIFICATION" in x or "panic" in x.lower()), "location": ""}]
        elif a["kind"] == "canary":
            if r["status"] == "FAILED" and real:
                rec["verdict"] = "canary-ok"
            else:
                rec["verdict"] = "undecided"
                rec["why"] = "vacuity canary did not fail: precondition may be contradictory"
        elif r["status"] == "SUCCESSFUL":
            if r["checks"] == 0:
                rec["verdict"] = "undecided"
                rec["why"] = "zero obligations generated"
            elif r["covers"] is not None and r["covers_sat"] != r["covers"]:
                rec["verdict"] = "undecided"
                rec["why"] = f"only {r['covers_sat']} of {r['covers']} covers satisfied (vacuity guard)"
            else:
                rec["verdict"] = "pass"
        else:  # FAILED
            if real:
                rec["verdict"] = "fail"
            elif und:
                rec["verdict"] = "undecided"
                rec["why"] = "only undecidable checks failed: " + "; ".join(fc["description"] for fc in und)
            else:
                # should_panic harness that did not panic, or failure without listed check
                note = " ".join(x for x in r["raw"] if "panic" in x.lower())
                if "should_panic" in note or "panic" in note:
                    rec["verdict"] = "fail"
                    rec["real_failed"] = [{"description": "expected panic was not reached on every path: " + note.strip(), "location": ""}]
                else:
                    rec["verdict"] = "undecided"
                    rec["why"] = "FAILED without a failed check: " + " | ".join(x for x in r["raw"][-6:] if x.strip())
        report["harnesses"].append(rec)


# ------------------------------------------------------------------------------------------------
# replay (concrete playback)
# ------------------------------------------------------------------------------------------------

MAX_REPLAYS = int(os.environ.get("VERIF_MAX_REPLAYS", "4"))
MAX_NATIVE = int(os.environ.get("VERIF_MAX_NATIVE", "2"))


def kani_replay(prop, rec, tier, native=True):
    """Re-run a failed harness with concrete playback; try to execute the counterexample natively.
    Returns dict for the replay file."""
    unit = rec["unit_cfg"]
    crate_dir, inc = rec["crate_dir"], rec["inc"]
    target = os.path.join(BUILD, prop, unit["name"], "target")
    env = kani_env(inc, target)
    cmd = kani_cmd(unit, harness_filter=[rec["harness"]], jobs=1,
                   extra=["-Z", "concrete-playback", "--concrete-playback=print"],
                   timeout_s=600)
    cmd[cmd.index("terse")] = "terse"
    rc, out, dt = sh(cmd, env=env, cwd=crate_dir, timeout=900)
    info = {"playback_cmd": " ".join(cmd), "concrete_values": None, "native_replay": None}
    m = re.search(r"```\s*\n(.*?)```", out, re.S)
    test_src = None
    if m and "kani_concrete_playback" in m.group(1):
        test_src = m.group(1)
    else:
        m = re.search(r"(#\[test\]\s*\n\s*fn kani_concrete_playback.*?\n\})", out, re.S)
        if m:
            test_src = m.group(1)
    if not test_src:
        info["playback_output_tail"] = "\n".join(out.splitlines()[-30:])
        return info
    info["concrete_values"] = re.findall(r"//\s*(.+)\n\s*vec!\[([^\]]*)\]", test_src)
    info["playback_test"] = test_src
    if not native:
        info["native_replay"] = {"ran": False, "why": f"native execution is capped at {MAX_NATIVE} harnesses per run"}
        return info
    # native execution against the real code: append the generated unit test to the harness text
    # (in /verif/build, never in /repo) and run it with `cargo kani playback`.
    tname = re.search(r"fn (kani_concrete_playback\w+)", test_src).group(1)
    modfile = None
    short_mod = rec["harness"].split("::")
    if unit.get("probe"):
        info["native_replay"] = native_replay_probe(prop, rec, test_src, tname, env)
        return info
    mod = short_mod[0]
    modfile = os.path.join(inc, mod + ".rs")
    if os.path.exists(modfile):
        orig = open(modfile).read()
        try:
            open(modfile, "a").write("\n" + test_src + "\n")
            pcmd = ["cargo", "kani", "playback", "-Z", "concrete-playback"]
            if unit.get("features"):
                pcmd += ["--features", ",".join(unit["features"])]
            pcmd += ["--", tname]
            prc, pout, pdt = sh(pcmd, env=env, cwd=crate_dir, timeout=900)
            failed = bool(re.search(r"test result: FAILED|panicked at|SIGABRT|SIGSEGV|signal: \d+", pout))
            ran = bool(re.search(r"running \d+ test", pout))
            info["native_replay"] = {"cmd": " ".join(pcmd), "rc": prc, "ran": ran,
                                     "reproduced_failure_natively": failed and ran,
                                     "output_tail": "\n".join(pout.splitlines()[-25:])}
        finally:
            open(modfile, "w").write(orig)
    return info


def native_replay_probe(prop, rec, test_src, tname, env):
    crate_dir = rec["crate_dir"]
    # probe harnesses live in src/lib.rs or src/main.rs modules; append to the file that defines it
    short = rec["short"]
    target_file = None
    for root, _d, files in os.walk(os.path.join(crate_dir, "src")):
        for f in files:
            p = os.path.join(root, f)
            if re.search(r"fn\s+" + re.escape(short) + r"\b", open(p).read()):
                target_file = p
    if not target_file:
        return {"ran": False, "why": "harness source not found"}
    orig = open(target_file).read()
    try:
        # place inside the same module: append at file end works for file-level modules
        open(target_file, "a").write("\n" + test_src + "\n")
        pcmd = ["cargo", "kani", "playback", "-Z", "concrete-playback", "--", tname]
        prc, pout, pdt = sh(pcmd, env=env, cwd=crate_dir, timeout=900)
        failed = bool(re.search(r"test result: FAILED|panicked at|SIGABRT|SIGSEGV|signal: \d+", pout))
        ran = bool(re.search(r"running \d+ test", pout))
        return {"cmd": " ".join(pcmd), "rc": prc, "ran": ran, "reproduced_failure_natively": failed and ran,
                "output_tail": "\n".join(pout.splitlines()[-25:])}
    finally:
        open(target_file, "w").write(orig)


# ------------------------------------------------------------------------------------------------
# native bounded stand-in (labelled as such; never counted as proof)
# ------------------------------------------------------------------------------------------------

def run_native_unit(prop, unit, tier, report):
    crate_dir = unit["crate_dir"].replace("$REPO", REPO).replace("$VERIF", VERIF)
    tin = os.path.join(crate_dir, "Cargo.toml.in")
    if os.path.exists(tin):
        open(os.path.join(crate_dir, "Cargo.toml"), "w").write(open(tin).read().replace("@REPO@", REPO))
    lock = os.path.join(REPO, "Cargo.lock")
    if os.path.exists(lock):
        shutil.copy(lock, os.path.join(crate_dir, "Cargo.lock"))
    target = os.path.join(BUILD, prop, unit["name"], "target")
    os.makedirs(os.path.dirname(target), exist_ok=True)
    env = dict(os.environ); env["CARGO_NET_OFFLINE"] = "true"; env["H33P_CGLUE_VERIF_DIR"] = os.path.join(VERIF, "kani", "_empty")
    for k, v in (unit.get("env", {}).get(tier) or {}).items():
        env[k] = str(v)
    cmd = ["cargo", "run", "--offline", "--quiet", "--target-dir", target]
    rc, out, dt = sh(cmd, env=env, cwd=crate_dir, timeout=unit.get("wall_s", {}).get(tier, 1200))
    open(os.path.join(BUILD, prop, unit["name"], f"native-{tier}.log"), "w").write(out)
    report["commands"].append({"unit": unit["name"], "cmd": " ".join(cmd), "cwd": crate_dir, "rc": rc, "wall_s": round(dt, 1)})
    for root, _d, files in os.walk(os.path.join(crate_dir, "src")):
        for f in files:
            report["sources"].append(os.path.join(root, f))
    cases = re.findall(r"^CASE (\S+) expect=(\S+) got=(.*?) (ok|FAIL)$", out, re.M)
    if rc != 0 or not cases:
        report["undecided"].append(f"{unit['name']}: native probe did not build/run (rc={rc}): " + "\n".join(out.splitlines()[-25:]))
        return
    if len(cases) < unit.get("min_cases", 1):
        report["undecided"].append(f"{unit['name']}: only {len(cases)} cases ran, registered minimum is {unit.get('min_cases')}")
    for name, expect, got, verdict in cases:
        rec = {"unit": unit["name"], "harness": "native:" + name, "short": "native_" + name, "kind": "property",
               "clause": unit.get("clause", "bounded native stand-in"), "backend": "native execution of the real code (bounded stand-in, NOT a proof)",
               "checks": 1, "failed": 0 if verdict == "ok" else 1, "status": "SUCCESSFUL" if verdict == "ok" else "FAILED",
               "covers": None, "covers_sat": None, "time_s": None, "failed_checks": [], "verdict": "pass" if verdict == "ok" else "fail",
               "unit_cfg": unit, "raw": f"CASE {name} expect={expect} got={got} {verdict}"}
        if verdict != "ok":
            desc = unit.get("fail_desc", "C20 compare_layouts on definition pair '{name}': expected {expect}, got {got}").format(name=name, expect=expect, got=got)
            fc = {"description": desc, "location": os.path.join(crate_dir, "src/main.rs")}
            rec["failed_checks"] = [fc]; rec["real_failed"] = [fc]
            rec["native_case"] = {"case": name, "expected": expect, "got": got, "rerun": "cd " + crate_dir + " && " + " ".join(cmd)}
        report["harnesses"].append(rec)


# ------------------------------------------------------------------------------------------------
# Verus
# ------------------------------------------------------------------------------------------------

def run_verus_unit(prop, unit, tier, report):
    sys.path.insert(0, os.path.join(VERIF, "verus"))
    import extract  # /verif/verus/extract.py
    outdir = os.path.join(BUILD, prop, unit["name"])
    os.makedirs(outdir, exist_ok=True)
    outfile = os.path.join(outdir, unit["name"] + ".rs")
    try:
        exlog = extract.build(unit["spec"], REPO, outfile)
    except extract.LostAnchor as e:
        report["undecided"].append(f"{unit['name']}: extraction lost an anchor: {e}")
        return
    report["extraction"].append({"unit": unit["name"], "file": outfile, "log": exlog})
    cmd = ["verus", outfile, "--output-json", "--time", "--multiple-errors", "20"]
    if unit.get("verus_args"):
        cmd += unit["verus_args"]
    rc, out, dt = sh(cmd, cwd=outdir, timeout=unit.get("wall_s", {}).get(tier, 900))
    open(os.path.join(outdir, f"verus-{tier}.log"), "w").write(out)
    report["commands"].append({"unit": unit["name"], "cmd": " ".join(cmd), "cwd": outdir, "rc": rc, "wall_s": round(dt, 1)})
    report["sources"].append(os.path.join(VERIF, "verus", unit["spec"]))
    # JSON part is the last {...} object in stdout
    j = None
    m = re.search(r"\{\s*\"(?:encountered-vir-error|verification-results|times-ms)\".*\}\s*$", out, re.S)
    try:
        start = re.search(r"^\{$", out, re.M).start()
        j = json.loads(out[start:out.rindex("}") + 1])
    except Exception:
        j = None
    vr = (j or {}).get("verification-results", {})
    verified, errors = vr.get("verified"), vr.get("errors")
    smt_ms = ((j or {}).get("times-ms", {}) or {}).get("smt", {})
    # error diagnostics (rustc-style) precede the JSON
    diags = []
    for blk in re.split(r"\n(?=error)", out):
        m = re.match(r"error(?:\[E\d+\])?: (.*)", blk)
        if not m:
            continue
        locs = re.findall(r"(?:-->|:::) (\S+?):(\d+):\d+", blk)
        mine = [(f, l) for f, l in locs if os.path.basename(f) == os.path.basename(outfile)]
        f, line = (mine or locs or [("?", "0")])[0]
        diags.append((m.group(1).strip(), f, line))
    vir_err = (j or {}).get("encountered-vir-error") or (j or {}).get("encountered-error")
    rec = {"unit": unit["name"], "harness": "verus:" + unit["name"], "short": unit["name"], "kind": "property",
           "clause": unit.get("clause", "Verus contracts on extracted functions"),
           "backend": "verus 0.2026.09.13 / z3", "checks": (verified or 0) + (errors or 0), "failed": errors or 0,
           "status": None, "covers": None, "covers_sat": None, "time_s": round(dt, 2), "failed_checks": [],
           "verdict": None, "unit_cfg": unit, "verus_file": outfile, "smt_ms": smt_ms}
    if j is None or verified is None:
        rec["verdict"] = "undecided"
        rec["verus_unsupported"] = True
        rec["why"] = "verus produced no verification results (front-end error / unsupported construct): " + "\n".join(out.splitlines()[:30])
    elif errors == 0 and rc == 0:
        if verified == 0:
            rec["verdict"] = "undecided"; rec["why"] = "zero obligations"
        else:
            rec["verdict"] = "pass"; rec["status"] = "SUCCESSFUL"
    else:
        fcs = []
        for msg, f, line in diags:
            if msg.startswith("aborting") or "verification errors" in msg:
                continue
            owner = extract.owner_of_line(outfile, int(line))
            fcs.append({"description": f"{msg} [{owner}]", "location": f"{f}:{line}"})
        rec["failed_checks"] = fcs
        und = [fc for fc in fcs if re.search(r"rlimit|resource limit|timeout|not supported|unsupported", fc["description"], re.I)]
        real = [fc for fc in fcs if fc not in und]
        # expected-to-fail canaries
        canaries = unit.get("canaries", [])
        real_nc = [fc for fc in real if not any(c in fc["description"] for c in canaries)]
        rec["real_failed"] = real_nc
        if real_nc:
            rec["verdict"] = "fail"; rec["status"] = "FAILED"
        elif und:
            rec["verdict"] = "undecided"; rec["why"] = "; ".join(fc["description"] for fc in und)
            rec["verus_unsupported"] = True
        else:
            rec["verdict"] = "pass"; rec["status"] = "SUCCESSFUL"
    # canary proof fns must fail
    for c in unit.get("canaries", []):
        if not any(c in fc["description"] for fc in rec["failed_checks"]):
            if rec["verdict"] == "pass":
                rec["verdict"] = "undecided"
                rec["why"] = f"verus canary {c} verified: vacuous context"
    if unit.get("canaries") and rec["verdict"] == "pass":
        rec["failed"] = 0
        rec["checks"] = (verified or 0)
    report["harnesses"].append(rec)


# ------------------------------------------------------------------------------------------------
# verdict, known findings, evidence
# ------------------------------------------------------------------------------------------------

def load_known():
    p = os.path.join(VERIF, "known_findings.json")
    if os.path.exists(p):
        return json.load(open(p))
    return {"open": [], "fixed": []}


def match_known(prop, rec, known):
    """A failing harness is a known finding only if EVERY real failed check matches an open entry
    for this property and harness."""
    ents = [e for e in known.get("open", []) if e["property"] == prop and re.fullmatch(e["harness"], rec["short"])]
    if not ents or not rec.get("real_failed"):
        return None
    used = []
    for fc in rec["real_failed"]:
        hit = None
        for e in ents:
            if re.search(e["check"], fc["description"]):
                hit = e
        if not hit:
            return None
        used.append(hit)
    return used


def finish(prop, cfg, tier, report, t0):
    known = load_known()
    seed = int(os.environ.get("VERIF_SEED", "0") or 0)
    violations, findings = [], []
    # A failed Verus obligation has no counterexample.  If the unit names complete Kani twins
    # (loop-free, full-domain harnesses over the same functions at a generic-enough instance) and
    # all of them held in this run, the failure is a proof-automation failure (e.g. a refactor
    # through closures that Z3 cannot see through), not a refutation: undecided, never VIOLATION.
    by_short = {r["short"]: r for r in report["harnesses"]}
    for rec in report["harnesses"]:
        if (rec["verdict"] == "fail" or (rec["verdict"] == "undecided" and rec.get("verus_unsupported"))) and rec["backend"].startswith("verus"):
            twins = rec["unit_cfg"].get("kani_twins", [])
            if twins and all(by_short.get(t, {}).get("verdict") == "pass" for t in twins):
                was_unsupported = rec["verdict"] == "undecided"
                rec["verdict"] = "downgraded"
                report.setdefault("downgrades", []).append(rec["short"])
                if was_unsupported:
                    rec["why"] = ("Verus could not process the extracted text (construct outside its subset / resource limit): " + (rec.get("why") or "")[:400] +
                                  " -- every complete Kani twin (" + ", ".join(twins) + ") holds on the same functions: the for-all-T proof is unavailable on this tree, the twins decide the instances they cover")
                else:
                    rec["why"] = ("Verus could not discharge: " + "; ".join(fc["description"] for fc in rec.get("real_failed", [])) +
                                  " -- but every complete Kani twin (" + ", ".join(twins) + ") holds on the same functions: proof-automation failure, not a refutation")
    for rec in report["harnesses"]:
        if rec["verdict"] != "fail":
            continue
        if rec["kind"] == "aux":
            report["aux_failures"].append(rec["short"])
            continue
        k = match_known(prop, rec, known)
        if k:
            rec["verdict"] = "known-finding"
            findings.append((rec, k))
        else:
            violations.append(rec)

    # replay for violations
    vio_lines = []
    for rec in violations:
        rdir = os.path.join(VERIF, "replays", prop)
        os.makedirs(rdir, exist_ok=True)
        rpath = os.path.join(rdir, rec["short"] + ".json")
        replay = {"property": prop, "clause": rec["clause"], "harness": rec["harness"], "backend": rec["backend"],
                  "failed_obligations": rec.get("real_failed") or rec["failed_checks"], "tier": tier}
        got_input = False
        nrep = violations.index(rec)
        if rec["backend"].startswith("kani") and not os.environ.get("VERIF_NO_REPLAY") and nrep < MAX_REPLAYS:
            try:
                info = kani_replay(prop, rec, tier, native=(nrep < MAX_NATIVE))
                replay.update(info)
                got_input = bool(info.get("concrete_values")) or bool(info.get("playback_test"))
            except Exception as e:  # replay is best-effort
                replay["replay_error"] = repr(e)
        elif rec["backend"].startswith("native"):
            replay["failing_input"] = rec.get("native_case")
            replay["note"] = "the failing input is the pair of interface definitions named by the case; it was executed against the real code by this run"
            got_input = True
        elif rec["backend"].startswith("verus"):
            replay["verifier_output"] = open(os.path.join(BUILD, prop, rec["unit"], f"verus-{tier}.log")).read()[-6000:]
            replay["verus_file"] = rec.get("verus_file")
        if "verifier_output" not in replay:
            replay["verifier_output"] = rec.get("raw", "")
        if nrep >= MAX_REPLAYS:
            replay["note"] = f"counterexample extraction is capped at {MAX_REPLAYS} harnesses per run; see the other replay files of this run"
        replay["replay_cmd"] = f"cd {VERIF} && ./check {prop} --replay {rpath}"
        json.dump(replay, open(rpath, "w"), indent=1, default=str)
        suffix = "" if got_input else " no-failing-input-found"
        vio_lines.append(f"VIOLATION property={prop} replay={rpath}{suffix}")

    und = list(report["undecided"]) + [f"{r['short']}: {r.get('why','')}" for r in report["harnesses"] if r["verdict"] == "undecided"]

    # evidence -----------------------------------------------------------------------------------
    hs = report["harnesses"]
    prop_hs = [r for r in hs if r["kind"] != "canary"]
    obligations = sum(r["checks"] for r in prop_hs)
    failed = sum(r["failed"] for r in prop_hs if r["verdict"] in ("fail", "known-finding", "undecided"))
    obligations -= sum(r["checks"] for r in prop_hs if r["verdict"] == "downgraded")  # not counted at all: neither generated-and-discharged nor refuted
    discharged = obligations - failed
    level = cfg["level"][tier] if isinstance(cfg["level"], dict) else cfg["level"]
    samples = []
    for r in hs[:400]:
        samples.append({"harness": r["harness"], "kind": r["kind"], "clause": r["clause"], "backend": r["backend"],
                        "obligations": r["checks"], "failed": r["failed"], "verdict": r["verdict"],
                        "covers": f"{r['covers_sat']}/{r['covers']}" if r["covers"] is not None else None,
                        "solver_time_s": r["time_s"]})
    assumptions = list(cfg.get("assumptions", [])) + ["mechanical scan: " + a for a in scan_assumptions(sorted(set(report["sources"])))]
    cov = {
        "obligations": obligations,
        "discharged": discharged,
        "checker_cmd": " ; ".join(c["cmd"] for c in report["commands"]),
        "trusted_base": cfg.get("trusted_base", []),
        "evaluations": len(prop_hs),
        "distinct_nontrivial": len([r for r in prop_hs if r["checks"] > 0 and r["verdict"] in ("pass", "known-finding")]),
        "rule": "one evaluation = one verifier harness/unit (a contract proved for all symbolic inputs it draws); non-trivial = generated >0 obligations, all covers satisfied, verdict pass",
        "samples": samples,
        "exhaustive": False,
        "functions_under_contract": cfg.get("functions_under_contract", []),
        "unchecked_clauses": cfg.get("unchecked_clauses", []),
        "bounds": cfg.get("bounds", {}).get(tier) if isinstance(cfg.get("bounds"), dict) else cfg.get("bounds"),
        "solver_time_s": round(sum((r["time_s"] or 0) for r in hs), 2),
        "commands": report["commands"],
        "extraction": report["extraction"],
        "canaries": [r["short"] + ":" + r["verdict"] for r in hs if r["kind"] == "canary"],
        "undecided": und,
        "aux_failures": report["aux_failures"],
        "downgrades": [f"{r['short']}: {r.get('why','')}" for r in hs if r["verdict"] == "downgraded"],
        "known_findings_reported": [f"{r['short']}" for r, _ in findings],
        "repo_head": sh(["git", "-C", REPO, "rev-parse", "HEAD"])[1].strip(),
        "repo_dirty": bool(sh(["git", "-C", REPO, "status", "--porcelain", "--untracked-files=no"])[1].strip()),
    }
    if level == "model_checking":
        cov["states"] = max(1, obligations)
        cov["transitions"] = max(1, len(prop_hs))
        cov["traces_validated_against_impl"] = len(prop_hs)
        cov["explanation_states"] = "states = verifier obligations generated over symbolic state; transitions = harnesses (one operation from an arbitrary WF state each); every harness executes the real code, so every trace is validated against the implementation"
    ev = {"property_id": prop, "tier": tier, "seed": seed, "level": level, "coverage": cov,
          "assumptions": assumptions, "wall_s": round(time.time() - t0, 1), "violations": len(violations)}
    os.makedirs(os.path.join(VERIF, "evidence"), exist_ok=True)
    json.dump(ev, open(os.path.join(VERIF, "evidence", prop + ".json"), "w"), indent=1, default=str)

    # report --------------------------------------------------------------------------------------
    for r in hs:
        log(f"  [{r['verdict']:>13}] {r['short']:<40} checks={r['checks']:<5} failed={r['failed']:<3} t={r['time_s']}")
        if r["verdict"] in ("fail", "undecided", "known-finding", "downgraded"):
            for fc in r["failed_checks"][:8]:
                log(f"        - {fc['description']}  {fc['location']}")
            if r.get("why"):
                log(f"        why: {r['why'][:600]}")
    for rec, ents in findings:
        what = "; ".join(sorted(set(e["what"] for e in ents)))
        print(f"KNOWN-FINDING: property={prop} {rec['short']}: {what}")
    for l in vio_lines:
        print(l)
    if vio_lines:
        return 1
    if und:
        log(f"UNDECIDED ({prop}):")
        for u in und:
            log("  - " + u[:1500])
        return 2
    print(f"OK property={prop} tier={tier} obligations={obligations} discharged={discharged} harnesses={len(prop_hs)} wall_s={ev['wall_s']}")
    return 0

#!/usr/bin/env python3
"""lib/seedbatch.py <worktree-prefix> <id-suffix> [PROP...]: confirm + test every seed_out/{1,2} found under
<prefix>_<PROP>; own property first, neighbouring properties only if the own check misses."""
import subprocess, sys, os, json
NEI = {"C01": ["C08", "C06", "C02", "C13"], "C02": ["C12", "C13", "C15", "C06"], "C04": ["C01", "C08"], "C06": ["C07", "C16", "C01"],
       "C07": ["C06", "C04"], "C08": ["C01", "C04"], "C10": ["C16", "C07"], "C11": ["C16"], "C12": ["C02", "C16"], "C13": ["C02", "C12"],
       "C14": [], "C15": ["C16", "C02"], "C16": ["C10", "C11", "C12", "C15", "C06"], "C19": [], "C20": []}
FEAT = {"C19": "--features task", "C20": "--features layout_checks"}
prefix, suffix = sys.argv[1], sys.argv[2]
props = sys.argv[3:] or sorted(NEI)
for p in props:
    wt = f"{prefix}_{p}"
    for n in ("1", "2"):
        if not os.path.isdir(os.path.join(wt, "seed_out", n)):
            continue
        sid = f"{p}-{suffix}{n}"
        env = dict(os.environ)
        if p in FEAT: env["SEED_FEATURES"] = FEAT[p]
        r = subprocess.run(["python3", "/verif/lib/seedconfirm.py", wt, n, sid, p], text=True, capture_output=True, env=env)
        m = json.load(open(f"/verif/seeded/{sid}/meta.json"))
        line = f"{sid}: confirmed={m.get('confirmed')} own={'CAUGHT' if p in m.get('caught_by', []) else 'missed'}"
        if m.get("confirmed") and p not in m.get("caught_by", []) and NEI[p]:
            r2 = subprocess.run(["python3", "/verif/lib/seedtest.py", f"/verif/seeded/{sid}"] + NEI[p], text=True, capture_output=True)
            res = json.load(open(f"/verif/seeded/{sid}/check_result.json")); os.remove(f"/verif/seeded/{sid}/check_result.json")
            m.setdefault("checks", {}).update(res)
            m["caught_by"] = sorted(set(m.get("caught_by", [])) | {k for k, v in res.items() if v["rc"] == 1})
            json.dump(m, open(f"/verif/seeded/{sid}/meta.json", "w"), indent=1)
            line += " neighbours=" + ",".join(f"{k}:{v['rc']}" for k, v in res.items())
        own = m.get("checks", {}).get(p, {})
        line += f" rc={own.get('rc')} failing={';'.join(f.split()[2] for f in own.get('failing', [])[:5] if len(f.split()) > 2)}"
        print(line, flush=True)

#!/usr/bin/env python3
"""lib/seedconfirm.py <worktree> <n> <seed_id> <prop> [<prop>...]
Confirms a sub-agent's change myself in its scratch worktree (existing suite green with the change, demo fails
with it, demo passes without it), then runs my checks against it on /repo, and files it under seeded/<seed_id>/."""
import subprocess, sys, os, json, shutil, glob, re
wt, n, sid = sys.argv[1], sys.argv[2], sys.argv[3]; props = sys.argv[4:]
src = os.path.join(wt, "seed_out", n)
def sh(c, cwd=wt, timeout=1800):
    r = subprocess.run(c, shell=True, text=True, capture_output=True, cwd=cwd, timeout=timeout)
    return r.returncode, r.stdout + r.stderr
def clean():
    sh("git checkout -- . && git clean -fdq -e seed_out -e target")
clean()
meta = {"seed": sid, "property": props[0], "source": "independent sub-agent working only from the property text in a scratch worktree", "ran": {}}
rc, out = sh(f"git apply {src}/patch.diff")
assert rc == 0, out
feat = os.environ.get("SEED_FEATURES", "")
rc, out = sh("cargo test --workspace --offline 2>&1 | grep -E '^test result|FAILED|error' | head -20")
suite_ok = "FAILED" not in out and "error" not in out and "test result: ok" in out
meta["ran"]["existing suite with change (cargo test --workspace --offline)"] = "green" if suite_ok else "NOT GREEN: " + out[-400:]
demos = [f for f in glob.glob(src + "/*.rs")]
demo_cmds = []
for shname in ("run.sh", "run_demo.sh"):
    if os.path.exists(os.path.join(src, shname)):
        demos = []
        demo_cmds.append((shname, f"sh {src}/{shname} > /tmp/seed_demo.out 2>&1; echo SEEDRC=$?; tail -25 /tmp/seed_demo.out"))
incrate = []
for d in list(demos):
    txt = open(d).read()
    if ("use crate::" in txt or "use super::super::" in txt) and "use cglue::" not in txt and "cglue::" not in txt.replace("use crate::", ""):
        # an in-crate test module (cglue/src/tests/<name>.rs + a `pub mod` line)
        demos.remove(d)
        stem = os.path.splitext(os.path.basename(d))[0] + "_seedmod"
        shutil.copy(d, os.path.join(wt, "cglue", "src", "tests", stem + ".rs"))
        incrate.append(stem)
        demo_cmds.append((stem, f"cargo test -p cglue --offline {feat} --lib {stem} 2>&1 | tail -25"))
def install_incrate():
    for stem in incrate:
        with open(os.path.join(wt, "cglue", "src", "tests", "mod.rs"), "a") as f:
            f.write(f"\npub mod {stem};\n")
install_incrate()
for d in demos:
    stem = os.path.splitext(os.path.basename(d))[0]
    os.makedirs(os.path.join(wt, "cglue", "tests"), exist_ok=True)
    shutil.copy(d, os.path.join(wt, "cglue", "tests", stem + ".rs"))
    demo_cmds.append((stem, f"cargo test -p cglue --offline {feat} --test {stem} 2>&1 | tail -25"))
fails_with = True
for stem, c in demo_cmds:
    rc, out = sh(c)
    bad = ("test result: FAILED" in out) or ("error: test failed" in out) or ("signal" in out) or (re.search(r"SEEDRC=[1-9]", out) is not None)
    meta["ran"][f"demo {stem} with change"] = "FAILS" if bad else "passes (!): " + out[-300:]
    fails_with &= bad
sh("git checkout -- .")
install_incrate()
passes_without = True
for stem, c in demo_cmds:
    rc, out = sh(c)
    good = ("test result: ok" in out and "FAILED" not in out) or ("SEEDRC=0" in out)
    meta["ran"][f"demo {stem} without change"] = "passes" if good else "does not pass (!): " + out[-300:]
    passes_without &= good
clean()
meta["confirmed"] = bool(suite_ok and fails_with and passes_without and demo_cmds)
try:
    meta["agent_notes"] = open(os.path.join(src, "meta.txt")).read()
except OSError:
    pass
dst = os.path.join("/verif/seeded", sid)
os.makedirs(dst, exist_ok=True)
for f in os.listdir(src):
    if os.path.isfile(os.path.join(src, f)):
        shutil.copy(os.path.join(src, f), dst)
    elif f != "target":
        shutil.copytree(os.path.join(src, f), os.path.join(dst, f), dirs_exist_ok=True, ignore=shutil.ignore_patterns("target", "Cargo.lock"))
print(json.dumps(meta["ran"], indent=1), "confirmed:", meta["confirmed"])
if meta["confirmed"] or os.environ.get("SEED_FORCE"):
    r = subprocess.run(["python3", "/verif/lib/seedtest.py", dst] + props, text=True, capture_output=True)
    print(r.stdout, r.stderr[-500:])
    try:
        meta["checks"] = json.load(open(os.path.join(dst, "check_result.json")))
        os.remove(os.path.join(dst, "check_result.json"))
    except OSError:
        pass
    meta["caught_by"] = [p for p, v in meta.get("checks", {}).items() if v["rc"] == 1]
json.dump(meta, open(os.path.join(dst, "meta.json"), "w"), indent=1)

#!/bin/sh
# lib/seedtest_wt.sh <worktree> <seed_id> <PROP> [VERIF_ONLY]: apply seeded/<seed_id>/patch.diff in a scratch worktree
# and run one quick check against it (VERIF_REPO), then revert the worktree.  For use while /repo is busy.
wt=$1; sid=$2; prop=$3; only=$4
git -C $wt checkout -q -- . && git -C $wt clean -fdq -e target
git -C $wt apply /verif/seeded/$sid/patch.diff || exit 3
cd /verif && VERIF_REPO=$wt VERIF_ONLY=$only VERIF_MAX_NATIVE=0 VERIF_MAX_REPLAYS=1 ./check $prop --tier quick > /tmp/stwt.out 2>&1
rc=$?
echo "$sid $prop rc=$rc $(grep -c '^VIOLATION' /tmp/stwt.out) violation lines; $(grep '\[         fail\]\|\[    undecided\]' /tmp/stwt.out | awk '{print $3}' | head -6 | tr '\n' ' ')"
git -C $wt checkout -q -- . && git -C $wt clean -fdq -e target

#!/usr/bin/env python3
"""MANIFEST.setup_cmd: nothing to build ahead of time — every check rebuilds from /repo's working
tree.  Verifies that the tools are present and creates the build directory."""
import os, shutil, subprocess, sys
V = os.path.dirname(os.path.dirname(os.path.abspath(__file__)))
os.makedirs(os.path.join(V, "build"), exist_ok=True)
os.makedirs(os.path.join(V, "evidence"), exist_ok=True)
ok = True
for tool in ["cargo", "cargo-kani", "verus", "cbmc"]:
    if not shutil.which(tool):
        print("missing tool", tool); ok = False
sys.exit(0 if ok else 1)

#!/usr/bin/env python3
import json, glob, os
rows = []
for p in sorted(glob.glob('/verif/seeded/*/meta.json')):
    m = json.load(open(p)); sid = m["seed"]
    what = (m.get("agent_notes", "").strip().splitlines() or [""])[0][:160]
    rows.append(f"| {sid} | {m['property']} | {what} | {'yes' if m.get('confirmed') else 'NO'} | {', '.join(m.get('caught_by', [])) or '—'} | {m.get('first_run', 'caught')} | {m.get('strengthening', '')} |")
open('/verif/seeded/INDEX.md', 'w').write("# Seeded property-breaking changes\n\nEach change was produced by an independent sub-agent that saw only the property text and a scratch worktree, then confirmed by `lib/seedconfirm.py` (existing suite green with the change, demo fails with it, demo passes without it) and run against the quick checks with `lib/seedtest.py` (apply to /repo, check, revert).\n\n| seed | property | change (first line of the author's note) | confirmed | caught by (exit 1 + VIOLATION) | first run | strengthening done |\n|---|---|---|---|---|---|---|\n" + "\n".join(rows) + "\n")
print(len(rows), "seeds")

#!/usr/bin/env python3
"""Regenerates /verif/MANIFEST.json from props/*.json (claimed) and lib/not_applicable.json."""
import json, os, glob, subprocess
V = os.path.dirname(os.path.dirname(os.path.abspath(__file__)))
allp = [json.loads(l)["id"] for l in open(os.path.join(V, "properties.jsonl"))]
na = json.load(open(os.path.join(V, "lib", "not_applicable.json")))
checks = []
for pid in allp:
    p = os.path.join(V, "props", pid + ".json")
    if not os.path.exists(p):
        continue
    c = json.load(open(p))
    m = c["manifest"]
    lvl = c["level"]["quick"] if isinstance(c["level"], dict) else c["level"]
    checks.append({
        "property_id": pid,
        "quick_cmd": f"./check {pid} --tier quick",
        "thorough_cmd": f"./check {pid} --tier thorough",
        "evidence_file": f"/verif/evidence/{pid}.json",
        "replay_cmd_template": f"./check {pid} --replay {{path}}",
        "engine": m.get("engine", "kani"),
        "level_claimed": {"category": lvl, "text": m["level_text"], "design_ref": m.get("design_ref", "DESIGN.md section 6")},
        "level_note": m["level_note"],
        "technique": m["technique"],
    })
claimed = {c["property_id"] for c in checks}
hooks_commits = subprocess.run(["git", "-C", "/repo", "log", "--format=%H %s", "66fce12..HEAD"], capture_output=True, text=True).stdout.strip().splitlines()
man = {
    "version": 1,
    "setup_cmd": "python3 lib/setup.py",
    "hooks": {
        "guard": "cfg(kani)  (set only by Kani's compiler; plain cargo/rustc never sets it)",
        "enable": "cargo kani (run by ./check with H33P_CGLUE_VERIF_DIR pointing at the generated harness include directory)",
        "baseline_off_cmd": "cd /repo && cargo test --workspace --no-fail-fast --offline",
        "source_commits": [l for l in hooks_commits if not l.split(' ', 1)[1].startswith('fix:')],
        "add_only": True,
    },
    "engines": [
        {"name": "kani", "path": "/verif/lib/engine.py", "serves_properties": sorted(claimed), "kind_free_text": "Kani 0.68/CBMC 6.11 on the unmodified crate: in-place function contracts and harness contracts (pre = WF value from constructors over symbolic payload, post = assertion over abstract view + Kani's automatic memory obligations + leak check)"},
        {"name": "verus", "path": "/verif/verus/extract.py", "serves_properties": [p for p in ["C12", "C13", "C20"] if p in claimed], "kind_free_text": "Verus/Z3 on functions extracted mechanically (byte-for-byte bodies) from /repo on every run; generic over all type parameters"},
    ],
    "checks": checks,
    "not_applicable": [{"property_id": k, "reason": v} for k, v in na.items() if k not in claimed],
    "notes": "fix: commits in /repo: " + "; ".join(l for l in hooks_commits if l.split(' ', 1)[1].startswith('fix:')),
}
missing = [p for p in allp if p not in claimed and p not in na]
assert not missing, missing
json.dump(man, open(os.path.join(V, "MANIFEST.json"), "w"), indent=1)
print("claimed", sorted(claimed), "n/a", [x["property_id"] for x in man["not_applicable"]])
